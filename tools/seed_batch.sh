#!/bin/sh
# tools/seed_batch.sh <prefix> <IDs...> : evaluate main + alt mutants found in /tmp/mut-<ID>, keep under seeded/<prefix><ID>[-alt]
prefix=$1; shift
cd "$(dirname "$0")/.."
for p in "$@"; do
  for alt in "" "--alt"; do
    [ -n "$alt" ] && [ ! -f /tmp/mut-$p/alt.diff ] && continue
    name="$prefix$p"; [ -n "$alt" ] && name="$name-alt"
    .venv/bin/python tools/seed_eval.py $p /tmp/mut-$p $alt --keep --name $name 2>&1 | python3 -c "
import sys,json
t=sys.stdin.read()
try:
    d=json.loads(t[:t.rindex('}')+1])
except Exception as e:
    print('$name ERR',t[-600:]); sys.exit()
print('$name','confirmed',d['confirmed'],d['tests_with_patch'][:12],'demo',d['demo_with_patch'][0],d['demo_without_patch'][0])
for k,v in d['checks'].items(): print('   ',k,'exit',v['exit'],[l[:230] for l in v['lines'][1:2]])
"
  done
done
