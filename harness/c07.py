"""C07 — processors run once per frame in priority order, one per exact type.

Shape H(L): L operations from the empty world over
    add_processor(fresh instance of type k, priority = unbounded symbolic integer | omitted)
    remove_processor(type k)
    process(dt)
    add_processor(the instance currently registered for type k, priority = symbolic integer | omitted)
followed by one final process(dt).  Explicit priorities are `sp.int()` values (SInt subclasses int), so
every `x < key(a[mid])` inside desper/bisect.py is decided by z3 for all integers at once and both
outcomes are explored when feasible.

Oracle: the order clauses of the statement are *validity* checks under the path condition: for every
pair (a listed before b):  a added before b  =>  prio(a) <= prio(b);  a added after b  =>  prio(a) < prio(b).
Together with "the listed objects are exactly the registered ones" this is the statement's order
(non-decreasing priority, ties in the order added) and costs no forks.
"""
import desper
from desper.logic.world import World

PROPERTY = 'C07'


class Dt(float):
    """Frame time handed to process(): a float (SupportsFloat) whose identity can be tracked."""


class Boom(Exception):
    """Raised once by a lifecycle callback in the fault harness."""


class Log(list):
    """Shared call log; `fault` = {'event': name, 'armed': bool, 'fired': instance or None} or None."""
    fault = None


class _Logged(desper.Processor):
    def __init__(self, log, label):
        self.log = log
        self.label = label

    def process(self, dt):
        self.log.append(('process', self, dt))

    def _saw(self, event):
        """Lifecycle callback: look at the world from inside (plain reads) and record what was seen."""
        w = self.world
        listed = found = None
        if w is not None:
            listed = w.processors
            found = w.get_processor(type(self))
        self.log.append((event, self, w, listed, found))
        f = getattr(self.log, 'fault', None)
        if f is not None and f['armed'] and f['event'] == event:
            f['armed'] = False
            f['fired'] = self
            raise Boom('%s of %r fails' % (event, self))

    def __repr__(self):
        return self.label


@desper.event_handler('on_add', 'on_remove')
class P0(_Logged):              # class default priority: inherited 0
    def on_add(self):
        self._saw('on_add')

    def on_remove(self):
        self._saw('on_remove')


class P1(P0):                   # subclass of P0, inherits the handler mapping
    priority = 0


@desper.event_handler('on_add', 'on_remove')
class P2(_Logged):
    priority = 5

    def on_add(self):
        self._saw('on_add')

    def on_remove(self):
        self._saw('on_remove')


class P3(_Logged):              # not an event handler
    priority = -3


@desper.event_handler('on_add')
class P4(_Logged):              # an event handler that does not listen to on_remove
    priority = 2

    def on_add(self):
        self._saw('on_add')


@desper.event_handler('on_remove')
class P5(_Logged):              # an event handler that does not listen to on_add
    priority = 1

    def on_remove(self):
        self._saw('on_remove')


TYPES = [P0, P1, P2, P3, P4, P5]
DEFAULT = {P0: 0, P1: 0, P2: 5, P3: -3, P4: 2, P5: 1}
EVENTS = {P0: ('on_add', 'on_remove'), P1: ('on_add', 'on_remove'), P2: ('on_add', 'on_remove'), P3: (),
          P4: ('on_add',), P5: ('on_remove',)}


class Model:
    def __init__(self):
        self.reg = {}       # exact type -> instance
        self.prio = {}      # id(instance) -> requested priority (SInt or class default int)
        self.stamp = {}     # id(instance) -> add time
        self.gone = []      # instances replaced or removed
        self.clock = 0
        self.enabled = True     # world.dispatch_enabled
        self.stale = set()      # ids of registered instances that another world took over meanwhile (two worlds)
        self.pending = []       # one list of (event, instance) per operation performed while disabled
        self.explicit = set()   # ids of instances added with an explicit priority

    def add(self, p, prio, explicit):
        if explicit:
            self.explicit.add(id(p))
        self.clock += 1
        self.reg[type(p)] = p
        self.prio[id(p)] = prio
        self.stamp[id(p)] = self.clock

    def drop(self, t):
        p = self.reg.pop(t)
        self.gone.append(p)
        return p


def check_order(sp, m, seq, when, what):
    for i in range(len(seq)):
        for j in range(i + 1, len(seq)):
            a, b = seq[i], seq[j]
            pa, pb = m.prio[id(a)], m.prio[id(b)]
            if m.stamp[id(a)] < m.stamp[id(b)]:
                sp.check(pa <= pb, 'order-nondecreasing',
                         '%s: %s has %r (priority %s) before %r (priority %s)' % (when, what, a, pa, b, pb))
            else:
                sp.check(pa < pb, 'order-ties-by-insertion',
                         '%s: %s has %r (priority %s, added later) before %r (priority %s, added earlier): '
                         'wrong whenever the priorities are equal or inverted' % (when, what, a, pa, b, pb))


def observe(sp, w, m, types, when):
    got = w.processors
    reg = list(m.reg.values())
    sp.check(len(got) == len(reg) and all(any(g is p for p in reg) for g in got)
             and all(any(g is p for g in got) for p in reg), 'one-per-type',
             '%s: processors lists %r, registered (one per exact type) are %r' % (when, got, reg))
    check_order(sp, m, got, when, 'processors')
    for p in reg:
        want = m.prio[id(p)]
        if id(p) not in m.stale:
            sp.check(p.priority == want, 'priority-readback',
                     '%s: %r.priority reads %s, requested/default priority is %s' % (when, p, p.priority, want))
            sp.check(p.world is w, 'knows-world', '%s: %r.world is %r' % (when, p, p.world))
        sp.check(w.get_processor(type(p)) is p, 'get_processor',
                 '%s: get_processor(%s) is not the registered instance' % (when, type(p).__name__))
    for T in types:
        if not any(issubclass(t, T) for t in m.reg):
            g = w.get_processor(T)
            sp.check(g is None, 'get_processor', '%s: get_processor(%s) returned %r, none registered' % (
                when, T.__name__, g))


def run_process(sp, w, m, log, when):
    dt = Dt(0.25)           # a unique object: "that dt" is checked by identity
    del log[:]
    sp.note('process(dt)')
    w.process(dt)
    calls = [x for x in log if x[0] == 'process']
    sp.check(len(calls) == len(log), 'process-side-effects', '%s: process(dt) delivered %r' % (when, log))
    reg = list(m.reg.values())
    for p in reg:
        k = sum(1 for c in calls if c[1] is p)
        sp.check(k == 1, 'called-once', '%s: %r.process was called %d times in one process(dt)' % (when, p, k))
    for c in calls:
        sp.check(any(c[1] is p for p in reg), 'stale-processor-called',
                 '%s: process(dt) called %r, which is not registered (replaced or removed)' % (when, c[1]))
        sp.check(c[2] is dt, 'same-dt', '%s: %r.process got %r instead of the dt given' % (when, c[1], c[2]))
    seq = [c[1] for c in calls]
    check_order(sp, m, seq, when, 'the call order of process(dt)')
    listed = w.processors
    sp.check(len(listed) == len(seq) and all(a is b for a, b in zip(listed, seq)), 'listing-is-call-order',
             '%s: processors lists %r, process(dt) called %r' % (when, listed, seq))
    if len(seq) >= 2:
        sp.cover('process-several')
    del log[:]


def expect_events(sp, log, expected, when):
    """expected: list of (event, instance).  The log must hold exactly these lifecycle callbacks, each once
    (the statement does not order the old instance's on_remove against the new instance's on_add)."""
    got = [(x[0], x[1]) for x in log]
    ok = len(got) == len(expected) and all(
        sum(1 for g in got if g[0] == e[0] and g[1] is e[1]) == 1 for e in expected)
    sp.check(ok, 'lifecycle-callbacks', '%s: callbacks delivered %r, expected %r' % (when, got, expected))
    for x in log:
        # delivered during the operation itself: the processor that is told on_add is already listed
        if x[0] == 'on_add':
            sp.check(x[2] is not None and x[3] is not None and any(q is x[1] for q in x[3]), 'on_add-sees-itself',
                     '%s: inside on_add of %r world.processors read %r' % (when, x[1], x[3]))
    del log[:]


def deliver(sp, m, log, expected, when):
    """Lifecycle callbacks of one operation: now when dispatching is enabled, postponed otherwise."""
    if m.enabled:
        expect_events(sp, log, expected, when)
        return
    sp.check(not log, 'callback-while-disabled',
             '%s: dispatching is disabled, yet callbacks ran: %r' % (when, [(x[0], x[1]) for x in log]))
    if expected:
        m.pending.append(expected)


def set_dispatching(sp, w, m, log, value, when):
    sp.note('dispatch_enabled = %r' % value)
    del log[:]
    try:
        w.dispatch_enabled = value
    except Exception as ex:     # noqa
        sp.fail('enable-raises', '%s: dispatch_enabled = %r raised %r' % (when, value, ex))
    m.enabled = value
    got = [(x[0], x[1]) for x in log]
    if not value:
        sp.check(not got, 'callback-while-disabled', '%s: disabling delivered %r' % (when, got))
        return
    # postponed callbacks arrive now, operation by operation (callbacks of one operation in any order)
    flat = [e for group in m.pending for e in group]
    ok = len(got) == len(flat)
    pos = 0
    for group in m.pending:
        chunk = got[pos:pos + len(group)]
        pos += len(group)
        ok = ok and len(chunk) == len(group) and all(
            sum(1 for g in chunk if g[0] == e[0] and g[1] is e[1]) == 1 for e in group)
    sp.check(ok, 'postponed-callbacks',
             '%s: enabling dispatching delivered %r, postponed (in operation order) were %r' % (when, got, flat))
    if len(m.pending) >= 2:
        sp.cover('flush-several-operations')
    if m.pending:
        sp.cover('flush')
    del m.pending[:]
    del log[:]


def consistent_after_fault(sp, w, m, types, when):
    """A callback raised in the middle of an operation.  Whatever the world decided to keep, its views must
    agree with each other (no reference model here); then the model is re-read from world.processors."""
    listed = w.processors
    found = []
    for T in types:
        g = w.get_processor(T)
        if g is not None and not any(g is q for q in found):
            found.append(g)
    sp.check(len(listed) == len(found) and all(any(p is g for g in found) for p in listed), 'fault-views-agree',
             '%s: processors lists %r, get_processor finds %r' % (when, listed, found))
    kinds = [type(p) for p in listed]
    sp.check(all(kinds.count(k) == 1 for k in kinds), 'fault-one-per-type',
             '%s: processors lists two processors of one exact type: %r' % (when, listed))
    for p in listed:
        sp.check(p.world is w, 'fault-knows-world', '%s: listed processor %r has world %r' % (when, p, p.world))
    # re-read: the listed processors, in listed order, with the priorities they show
    known = list(m.reg.values()) + list(m.gone)
    m.reg = {}
    m.clock = 0
    for p in listed:
        m.add(p, p.priority, id(p) in m.explicit)
    m.gone = [q for q in known if not any(q is p for p in listed)]


def h_procs(sp, L=3, n_types=4, mid_process=True, build=0, readd=True, pick=None, toggle=False, explicit_ok=True,
            fault=False):
    types = [TYPES[i] for i in pick] if pick else TYPES[:n_types]
    w = World()
    m = Model()
    log = Log()
    serial = 0
    fault_step = fault_event = None
    if fault:
        # one lifecycle callback raises once: in which operation, and which kind of callback
        fault_step = build + sp.choose(L, 'fault-step')
        fault_event = sp.pick(['on_add', 'on_remove'], 'fault-event')
    if toggle and sp.flag('start-disabled'):
        set_dispatching(sp, w, m, log, False, 'start')
        sp.cover('start-disabled')
    for step in range(build + L):
        when = 'step %d' % step
        # the first `build` steps add one processor each of types[0], types[1], ... (any priorities)
        ops = [0, 1] + ([2] if mid_process else []) + ([3] if readd else []) + ([4] if toggle else [])
        op = 0 if step < build else sp.pick(ops, 'op%d' % step)
        if step == fault_step:
            log.fault = dict(event=fault_event, armed=True, fired=None)
            new_instance = None
        try:
            if op == 0:
                T = types[step] if step < build else sp.pick(types, 'type%d' % step)
                serial += 1
                p = T(log, '%s#%d' % (T.__name__, serial))
                new_instance = p
                old = m.reg.get(T)
                expected = []
                if old is not None:
                    m.drop(T)
                    sp.cover('replace')
                    if 'on_remove' in EVENTS[T]:
                        expected.append(('on_remove', old))
                        if m.enabled:
                            # old.on_remove runs in the middle of add_processor and reads world.processors
                            sp.cover('callback-read-during-replacement')
                if 'on_add' in EVENTS[T]:
                    expected.append(('on_add', p))
                explicit = bool(explicit_ok and sp.flag('explicit%d' % step))
                if explicit:
                    prio = sp.int('prio%d' % step)
                    sp.note('add_processor(%r, priority=%s)' % (p, prio))
                    sp.cover('explicit')
                    if any(id(q) in m.explicit for q in m.reg.values()):
                        sp.cover('explicit-vs-explicit')
                    w.add_processor(p, priority=prio)
                else:
                    prio = DEFAULT[T]
                    sp.note('add_processor(%r)' % (p,))
                    sp.cover('default')
                    if any(id(q) not in m.explicit and m.prio[id(q)] == prio for q in m.reg.values()):
                        sp.cover('tie-of-defaults')
                    w.add_processor(p)
                m.add(p, prio, explicit)
                if not m.enabled:
                    sp.cover('replace-while-disabled' if old is not None else 'add-while-disabled')
                    if EVENTS[T] and 'on_add' not in EVENTS[T]:
                        sp.cover('add-handler-without-on_add-while-disabled')
                if len(m.reg) >= 3:
                    sp.cover('three-or-more')
                if len(m.reg) >= 4:
                    sp.cover('four')
                deliver(sp, m, log, expected, when)
            elif op == 1:
                T = sp.pick(types, 'type%d' % step)
                sp.note('remove_processor(%s)' % T.__name__)
                w.remove_processor(T)
                # exact type first, then subtypes (here: P1 is the only subtype, of P0)
                victim = T if T in m.reg else next((t for t in m.reg if issubclass(t, T)), None)
                expected = []
                if victim is not None:
                    old = m.drop(victim)
                    sp.cover('remove')
                    if 'on_remove' not in EVENTS[victim] and EVENTS[victim]:
                        sp.cover('remove-handler-without-on_remove' + ('' if m.enabled else '-while-disabled'))
                    elif not m.enabled:
                        sp.cover('remove-while-disabled')
                    if victim is not T:
                        sp.cover('remove-subtype')
                    if 'on_remove' in EVENTS[victim]:
                        expected.append(('on_remove', old))
                else:
                    sp.cover('remove-absent')
                deliver(sp, m, log, expected, when)
            elif op == 4:
                if m.enabled:
                    sp.cover('disable-mid-history')
                set_dispatching(sp, w, m, log, not m.enabled, when)
            elif op == 2:
                sp.cover('process-mid-history')
                if not m.enabled and len(m.reg) >= 2:
                    sp.cover('process-while-disabled')
                run_process(sp, w, m, log, when)
            else:
                # re-add the instance that is currently registered (the same object)
                present = [t for t in types if t in m.reg]
                if not present:
                    sp.assume(False)
                T = sp.pick(present, 'type%d' % step)
                p = m.reg[T]
                explicit = bool(sp.flag('explicit%d' % step))
                if explicit:
                    prio = sp.int('prio%d' % step)
                    sp.note('add_processor(%r, priority=%s)   # the registered instance again' % (p, prio))
                    w.add_processor(p, priority=prio)
                    sp.cover('readd-explicit')
                else:
                    sp.note('add_processor(%r)   # the registered instance again' % (p,))
                    w.add_processor(p)
                    # the statement only says what an explicit priority does: whatever the instance reads
                    # now is its priority, the order must agree with it
                    prio = p.priority
                    sp.cover('readd-omitted')
                if len(m.reg) >= 2:
                    sp.cover('readd-among-several')
                # counts as added now; an omitted priority keeps whatever an earlier explicit add assigned
                m.add(p, prio, explicit or id(p) in m.explicit)
                # same object replaced by itself: on_remove + on_add (any order) or no callback at all
                got = [(x[0], x[1]) for x in log]
                both = (len(got) == 2 and all(g[1] is p for g in got)
                        and sorted(g[0] for g in got) == ['on_add', 'on_remove'])
                sp.check((not got) or (len(EVENTS[T]) == 2 and both), 'lifecycle-callbacks',
                         '%s: re-adding %r delivered %r, expected on_remove+on_add for it or nothing' % (
                             when, p, got))
                del log[:]
        except Boom as ex:
            if log.fault is None or log.fault['fired'] is None:
                sp.fail('op-raises', '%s: operation raised %r' % (when, ex))
            sp.note('  -> raised %r' % (ex,))
        except Exception as ex:     # noqa
            sp.fail('op-raises', '%s: operation raised %r' % (when, ex))
        if step == fault_step:
            fired = log.fault['fired']
            log.fault = None
            del log[:]
            if fired is None:
                sp.assume(False)        # no such callback in this operation: the plain history, covered elsewhere
            if fault_event == 'on_add':
                sp.cover('fault-in-on_add')
            elif op == 0:
                sp.cover('fault-in-on_remove-of-replaced')
            else:
                sp.cover('fault-in-remove_processor')
            if step < build + L - 1:
                sp.cover('operations-after-fault')
            if new_instance is not None and not any(new_instance is q for q in w.processors):
                m.gone.append(new_instance)
            try:
                consistent_after_fault(sp, w, m, types, when + ' (after the failing callback)')
            except Exception as ex:     # noqa
                sp.fail('op-raises', '%s: a query after the failing callback raised %r' % (when, ex))
        try:
            observe(sp, w, m, types, when)
        except Exception as ex:     # noqa
            sp.fail('op-raises', '%s: an observer raised %r' % (when, ex))
    if not m.enabled:
        if len(m.reg) >= 2:
            sp.cover('process-while-disabled')
        try:
            run_process(sp, w, m, log, 'last frame while disabled')
        except Exception as ex:     # noqa
            sp.fail('op-raises', 'process(dt) while disabled raised %r' % (ex,))
        set_dispatching(sp, w, m, log, True, 'end')
    try:
        run_process(sp, w, m, log, 'final frame')
        if m.gone:
            sp.cover('frame-after-replace-or-remove')
    except Exception as ex:     # noqa
        sp.fail('op-raises', 'final process(dt) raised %r' % (ex,))
    sp.done()


def h_two_worlds(sp, L=3, build=False):
    """Two worlds; a processor instance removed from one may be added to the other (moved), or be registered in
    both at once (shared).  Per-world oracle as in h_procs."""
    types = [P0, P2]
    worlds = [World(), World()]
    models = [Model(), Model()]
    names = 'AB'
    log = Log()
    pool = []
    if build:
        # world A starts with one P2 (class default priority 5), so its list has a neighbour to bisect against
        q = P2(log, 'P2#1')
        pool.append(q)
        sp.note('A.add_processor(%r)' % (q,))
        worlds[0].add_processor(q)
        models[0].add(q, DEFAULT[P2], False)
        del log[:]
    for step in range(L):
        when = 'step %d' % step
        k = sp.choose(2, 'world%d' % step)
        w, m, o = worlds[k], models[k], models[1 - k]
        op = sp.choose(3, 'op%d' % step)
        try:
            if op in (0, 2):
                if m.stale:
                    sp.assume(False)    # this world's list holds an instance whose priority another world rewrote
                if op == 0:
                    T = sp.pick(types, 'type%d' % step)
                    p = T(log, '%s#%d' % (T.__name__, len(pool) + 1))
                    pool.append(p)
                else:
                    if not pool:
                        sp.assume(False)
                    p = sp.pick(pool, 'instance%d' % step)
                    T = type(p)
                    if m.reg.get(T) is p:
                        sp.assume(False)        # re-adding to the same world: harness procs
                    if o.reg.get(T) is p:
                        sp.cover('processor-in-two-worlds')
                        o.stale.add(id(p))
                    elif any(q is p for q in o.gone):
                        sp.cover('processor-moved-between-worlds')
                old = m.reg.get(T)
                expected = [('on_add', p)]
                if old is not None:
                    m.drop(T)
                    m.stale.discard(id(old))
                    expected.append(('on_remove', old))
                explicit = bool(sp.flag('explicit%d' % step))
                if explicit:
                    prio = sp.int('prio%d' % step)
                    sp.note('%s.add_processor(%r, priority=%s)' % (names[k], p, prio))
                    w.add_processor(p, priority=prio)
                else:
                    sp.note('%s.add_processor(%r)' % (names[k], p))
                    w.add_processor(p)
                    prio = DEFAULT[T] if op == 0 else p.priority
                m.add(p, prio, explicit)
                for x in log:
                    if x[0] == 'on_add':
                        sp.check(x[2] is w, 'callback-world', '%s: on_add of %r ran with world %r' % (when, x[1], x[2]))
                expect_events(sp, log, expected, when)
            else:
                T = sp.pick(types, 'type%d' % step)
                sp.note('%s.remove_processor(%s)' % (names[k], T.__name__))
                w.remove_processor(T)
                expected = []
                if T in m.reg:
                    old = m.drop(T)
                    if id(old) in m.stale:
                        sp.cover('removed-where-stale')
                    m.stale.discard(id(old))
                    expected.append(('on_remove', old))
                expect_events(sp, log, expected, when)
        except Exception as ex:     # noqa
            sp.fail('op-raises', '%s: operation raised %r' % (when, ex))
        for j in (0, 1):
            try:
                observe(sp, worlds[j], models[j], types, '%s, world %s' % (when, names[j]))
            except Exception as ex:     # noqa
                sp.fail('op-raises', '%s: an observer of world %s raised %r' % (when, names[j], ex))
    for j in (0, 1):
        try:
            run_process(sp, worlds[j], models[j], log, 'final frame of world %s' % names[j])
        except Exception as ex:     # noqa
            sp.fail('op-raises', 'final process(dt) of world %s raised %r' % (names[j], ex))
    sp.done()


_TWO = ['processor-moved-between-worlds', 'processor-in-two-worlds', 'removed-where-stale']
_TAGS = ['replace', 'callback-read-during-replacement', 'remove', 'remove-subtype', 'explicit', 'default', 'explicit-vs-explicit', 'tie-of-defaults',
         'three-or-more', 'process-several', 'frame-after-replace-or-remove']
_DISABLED = ['start-disabled', 'disable-mid-history', 'add-while-disabled', 'replace-while-disabled',
             'remove-while-disabled', 'remove-handler-without-on_remove', 'add-handler-without-on_add-while-disabled',
             'remove-handler-without-on_remove-while-disabled', 'flush', 'flush-several-operations',
             'process-while-disabled']
_FAULT = ['fault-in-on_add', 'fault-in-on_remove-of-replaced', 'fault-in-remove_processor', 'operations-after-fault']
_READD = ['readd-explicit', 'readd-omitted', 'readd-among-several']

HARNESSES = {
    'procs': dict(fn=h_procs, nontrivial=_TAGS + _READD, required=_TAGS + _READD),
    # dispatching disabled at a symbolic point (or from the start), enabled again later / at the end
    'disabled': dict(fn=h_procs, nontrivial=_DISABLED, required=_DISABLED),
    # one lifecycle callback raises once; consistency of the world's own views, then the usual oracle again
    'fault': dict(fn=h_procs, nontrivial=_FAULT, required=_FAULT),
    'two-worlds': dict(fn=h_two_worlds, nontrivial=_TWO, required=_TWO),
    'noreadd': dict(fn=h_procs, nontrivial=_TAGS, required=_TAGS),
    # same function started from a built world (first `build` steps are forced adds): longer lists
    'built': dict(fn=h_procs, nontrivial=_TAGS + _READD + ['four'],
                  required=[t for t in _TAGS if t != 'remove-subtype'] + _READD + ['four']),
}

TIERS = {
    'quick': [
        ('procs', dict(L=3, n_types=4)),
        ('built', dict(L=1, n_types=4, build=3)),
        ('disabled', dict(L=4, pick=[0, 4, 5], toggle=True, readd=False, explicit_ok=False)),
        ('fault', dict(L=3, pick=[0, 1, 4, 5], readd=False, explicit_ok=False, fault=True)),
        ('two-worlds', dict(L=3, build=True)),
    ],
    'thorough': [
        ('procs', dict(L=4, n_types=4)),
        ('built', dict(L=2, n_types=4, build=3)),
        ('disabled', dict(L=5, pick=[0, 4, 5], toggle=True, readd=False, explicit_ok=False)),
        ('disabled', dict(L=3, pick=[0, 1, 4, 5], toggle=True, readd=False)),
        ('fault', dict(L=4, pick=[0, 1, 4, 5], readd=False, explicit_ok=False, fault=True)),
        ('fault', dict(L=3, pick=[0, 1, 2], readd=False, fault=True)),
        ('two-worlds', dict(L=4)),
        ('two-worlds', dict(L=4, build=True)),
        ('noreadd', dict(L=5, n_types=3, mid_process=False, readd=False)),
    ],
}
BUDGET_S = {'quick': 120, 'thorough': 1500}

EXPLANATION = (
    'Bounded symbolic execution of the real World.add_processor / remove_processor / process / processors / '
    'get_processor and desper/bisect.py.  Explicit priorities are unbounded z3 integers carried by an int '
    'subclass, so every comparison of the bisection is a solver decision and every feasible insertion position '
    '(including ties, zero and negative values) is explored for all integers at once.  The order clauses are '
    'checked as validity under the path condition (z3 is asked for integers that would put two listed '
    'processors in the wrong order); the explorer visits every feasible path of every operation sequence of '
    'the stated length and certifies none was skipped.')
RULE = ('one evaluation = one feasible path = one operation sequence together with one outcome of every priority '
        'comparison made by the real code; non-trivial = the path replaced or removed a processor, used an '
        'explicit symbolic priority, had a tie of defaults, three or more processors, or processed several')
BOUNDS = {
    'quick': 'all sequences of 3 operations (add fresh / remove / process / re-add registered instance), and 1 operation after a built world of P0, P1, P2 with any priorities, + a final process(dt); 4 processor classes P0, P1(P0), P2, P3 with '
             'class defaults 0, 0, 5, -3 (P3 is not an event handler); priorities: any integer or omitted; '
             'dispatching disabled: all sequences of 4 operations (add / remove / process / toggle dispatch_enabled) '
             'over P0, P4 (on_add only), P5 (on_remove only) with default priorities, started enabled or disabled, '
             'enabled again at the end; failing callback: all sequences of 3 operations over P0, P1(P0), P4, P5 with one '
             'on_add or on_remove raising once in a chosen operation; two worlds: 3 operations (add fresh / add an '
             'existing instance / remove, on world A or B; classes P0, P2) after A was given one P2',
    'thorough': 'all sequences of 4 operations over the 4 classes, 2 operations after the built world, and all '
                'sequences of 5 add-fresh/remove operations over P0, P1(P0), P2; each followed by a final process(dt); priorities: any integer or omitted; '
                'dispatching disabled: 5 operations over P0, P4, P5 (default priorities) and 3 operations over P0, '
                'P1(P0), P4, P5 with symbolic priorities; failing callback: 4 operations over P0, P1(P0), P4, P5 (default '
                'priorities) and 3 operations over P0, P1(P0), P2 with symbolic priorities; two worlds: 4 operations from '
                'empty worlds and 4 after A was given one P2',
}
ASSUMPTIONS = [
    'add_processor gets a fresh instance, or (re-add operation) the very instance currently registered for its '
    'type; the effective priority of a fresh instance is the explicit argument, else the class default, and is '
    'not reassigned by the harness',
    're-adding the registered instance: afterwards it is the one processor of its type and counts as added now '
    '(ties go after older processors of equal priority); an explicit priority must read back; with the priority '
    'omitted the statement does not say whether an earlier explicit value persists, so whatever p.priority '
    'reads is accepted and the order must agree with it; callbacks: on_remove + on_add for that object in any '
    'order, or none at all, are both accepted',
    '"order they were added" refers to the add_processor call that registered the instance currently listed',
    'processors do not add/remove processors or raise inside process()',
    'harness "two-worlds": operations target world A or B; an instance removed from one world may be added to the '
    'other (moved) or be registered in both at once (shared).  Each world is modelled on its own, with the '
    'priority the instance had when it was inserted there.  HEAD keeps the explicit priority and the world '
    'back-reference on the instance, so once the other world has taken an instance over, its .priority/.world '
    'are not checked for the first world any more (order, membership, get_processor, callbacks and process() '
    'still are), and further add_processor calls into a world that still lists such an instance are outside '
    'the claim (its list is no longer sorted by the current priorities; paths cut by assume); removing it there '
    'is inside',
    'harness "fault": in one symbolically chosen operation the first on_add (or on_remove) callback raises once '
    '(dispatching enabled; the exception is expected to propagate to the caller).  The statement does not say '
    'what such an operation leaves behind, so right after it only agreement of the world with itself is required: '
    'world.processors holds exactly the objects get_processor finds for the harness types, no two of one exact '
    'type, each with .world set to the world; the reference model is then re-read from world.processors (listed '
    'order = insertion order, priorities as read back) and the usual oracle, including process(dt), applies to '
    'the rest of the history',
    'harness "disabled": world.dispatch_enabled is switched off at the start and/or toggled at symbolic points of '
    'the history and switched on again at the end.  While it is off no on_add/on_remove of a processor may run '
    '(they are postponed, the mechanism of C02/C04); the enabling assignment must not raise and must deliver '
    'exactly the postponed callbacks, operation by operation (callbacks of one operation in any order), also to '
    'processors that were removed meanwhile; handlers that do not map on_add / on_remove get no such callback; '
    'process(dt) while disabled still calls every processor once, in order',
    'remove_processor(T) removes the exact-T instance, else the instance of the only registered subtype '
    '(choice among several subtypes is C06); its return value is not checked here',
    'processor.world after removal is not specified by the statement: not checked',
    '"with that dt" is checked by object identity; dt is an instance of a float subclass',
    'the relative order of the replaced instance\'s on_remove and the new instance\'s on_add is not specified',
    'every on_add/on_remove callback of the harness processors reads world.processors and '
    'world.get_processor(type(self)) (plain reads); what a callback sees is only checked for on_add delivered '
    'during add_processor itself (the processor is already listed); the usual oracle after the operation must '
    'hold regardless of such reads',
    'on_add/on_remove are checked for handler processors only (P3 has no __events__; P4 maps on_add only, P5 '
    'on_remove only)',
]
OUTSIDE = ['add_processor/remove_processor from inside a running process()',
           'adding to a world that lists an instance whose priority another world has rewritten', 'histories longer than the bound',
           'World.clear() or re-adding the registered instance while dispatching is disabled',
           'priority objects that are not mathematical integers (bool, int subclasses with odd comparisons)',
           'events other than on_add/on_remove queued while dispatching is disabled (C04)']

TECHNIQUE = 'bounded symbolic execution with unbounded symbolic integer priorities: every comparison in desper/bisect.py is a z3 LIA decision; order stated as validity checks'
