"""C01 — World queries always agree on who owns which component.

Shape I: a valid state built from symbolic presence bits through the public API in a canonical
order, then `steps` arbitrary operations, oracle after each.  Shape H: the same alphabet from the
empty world.  Reference model: ents: id -> {exact type -> component}, dead: set of ids.
"""
import desper
from desper.logic.world import World

PROPERTY = 'C01'


class A:
    pass


class B(A):
    pass


class C(B):
    pass


class X:
    pass


class M(A):
    pass


class D(B, M):
    """diamond: A -> B -> D and A -> M -> D"""


TYPES = [A, B, C, X]
DIAMOND = [A, B, M, D]


def _flavoured(ns):
    """the chain universe again, with unusual instances (falsy / empty / equal to everything)"""
    a = type('A', (), dict(ns))
    b = type('B', (a,), {})
    c = type('C', (b,), {})
    x = type('X', (), dict(ns))
    return [a, b, c, x]


UNIVERSES = {
    'chain': TYPES,
    'diamond': DIAMOND,
    'falsy': _flavoured({'__bool__': lambda self: False}),
    'empty': _flavoured({'__len__': lambda self: 0}),
    'all-equal': _flavoured({'__eq__': lambda self, other: True, '__hash__': lambda self: 7}),
}
IDS = [1, 2, ('k', 1)]      # 1 and 2 are the ids count(1) will produce; the third is a tuple (a hashable that is itself a collection of ids)


class Model:
    def __init__(self):
        self.ents = {}      # id -> {type: comp}
        self.dead = set()
        self.tainted = set()    # ids emptied while a deferred-deletion mark was pending

    def owners(self):
        return {e for e, c in self.ents.items() if c}

    def put(self, e, comp):
        self.ents.setdefault(e, {})[type(comp)] = comp

    def drop_entity(self, e):
        self.ents.pop(e, None)

    def process(self):
        for e in list(self.dead):
            self.drop_entity(e)
        self.dead.clear()
        self.tainted.clear()

    def clear(self):
        self.ents.clear()
        self.dead.clear()
        self.tainted.clear()


SENTINEL = object()


def oracle(sp, w, m, types, ids, when):
    try:
        _oracle(sp, w, m, types, ids, when)
    except Exception as ex:         # noqa  (a query that raises tells no story at all)
        import traceback
        sp.fail('query-raises', '%s: a query raised %r at %s' % (when, ex, traceback.extract_tb(ex.__traceback__)[-1][:3]))


def _oracle(sp, w, m, types, ids, when, check_alive=True):
    for T in types:
        got = w.get(T)
        exp = [(e, c) for e, comps in m.ents.items() for t, c in comps.items() if issubclass(t, T)]
        sp.check(len(got) == len(exp), 'get-count',
                 '%s: get(%s) has %d pairs, %d attached' % (when, T.__name__, len(got), len(exp)))
        sp.check(sorted((repr(e), id(c)) for e, c in got) == sorted((repr(e), id(c)) for e, c in exp),
                 'get-content', '%s: get(%s) lists wrong pairs' % (when, T.__name__))
    for e in ids:
        comps = m.ents.get(e, {})
        got = w.get_components(e)
        sp.check(sorted(id(c) for c in got) == sorted(id(c) for c in comps.values()), 'get_components',
                 '%s: get_components(%r)' % (when, e))
        for T in types:
            has = any(issubclass(t, T) for t in comps)
            sp.check(w.has_component(e, T) is has, 'has_component',
                     '%s: has_component(%r, %s) != %s' % (when, e, T.__name__, has))
            g = w.get_component(e, T)
            if has:
                ok = g is not None and any(g is c for c in comps.values()) and isinstance(g, T)
                sp.check(ok, 'get_component', '%s: get_component(%r, %s) not an attached match' % (
                    when, e, T.__name__))
                if T in comps:
                    sp.check(g is comps[T], 'get_component-exact',
                             '%s: get_component(%r, %s) does not prefer the exact type' % (when, e, T.__name__))
            else:
                sp.check(g is None, 'get_component', '%s: get_component(%r, %s) should be None' % (
                    when, e, T.__name__))
                sp.check(w.get_component(e, T, SENTINEL) is SENTINEL, 'get_component-default',
                         '%s: get_component(%r, %s, default) does not return the given default' % (when, e, T.__name__))
        alive = bool(comps) and e not in m.dead
        if check_alive:
            sp.check(w.entity_exists(e) is alive, 'entity_exists',
                     '%s: entity_exists(%r) != %s' % (when, e, alive))
        else:       # which deletion marks survive a failed operation is free; an entity that owns nothing never exists
            sp.check(bool(comps) or not w.entity_exists(e), 'entity_exists',
                     '%s: entity_exists(%r) is True for an entity that owns nothing' % (when, e))
    if check_alive:
        exp_alive = sorted(repr(e) for e in m.owners() if e not in m.dead)
        sp.check(sorted(repr(e) for e in w.entities) == exp_alive, 'entities',
                 '%s: entities %r != %r' % (when, w.entities, exp_alive))
    else:
        sp.check(all(e in m.owners() for e in w.entities), 'entities',
                 '%s: entities %r names an entity that owns nothing' % (when, w.entities))


def pick_types(sp, types, label):
    """0-2 components of distinct exact types."""
    k = sp.choose(3, label + '.n')
    if k == 0:
        return []
    i = sp.choose(len(types), label + '.t0')
    if k == 1:
        return [types[i]]
    j = sp.choose(len(types) - 1, label + '.t1')
    rest = [t for t in types if t is not types[i]]
    return [types[i], rest[j]]


def h_world(sp, n_ids=2, n_types=3, build=True, steps=1, ops_ids=3, universe='chain'):
    types = UNIVERSES[universe][:n_types]
    if universe != 'chain':
        sp.cover(universe + '-universe')
    ids = IDS[:max(n_ids, ops_ids)]
    w = World()
    m = Model()
    if build:
        for e in IDS[:n_ids]:
            for T in types:
                if sp.flag('has[%r,%s]' % (e, T.__name__)):
                    c = T()
                    w.add_component(e, c)
                    m.put(e, c)
                    sp.note('build add_component(%r, %s())' % (e, T.__name__))
        for e in IDS[:n_ids]:
            if m.ents.get(e) and sp.flag('dead[%r]' % (e,)):
                w.delete_entity(e)
                m.dead.add(e)
                sp.note('build delete_entity(%r)' % (e,))
        oracle(sp, w, m, types, ids, 'after build')
    for step in range(steps):
        op = sp.choose(8, 'op%d' % step)
        when = 'step %d' % step
        try:
            if op == 0:
                ts = pick_types(sp, types, 'create%d' % step)
                comps = [T() for T in ts]
                before = m.owners()
                sp.note('create_entity(%s)' % ', '.join(T.__name__ + '()' for T in ts))
                e = w.create_entity(*comps)
                sp.note('  -> %r' % (e,))
                sp.check(e not in before, 'auto-id-fresh',
                         'create_entity() returned %r, which already owns components' % (e,))
                if e in m.tainted and comps:
                    sp.assume(False)
                for c in comps:
                    m.put(e, c)
                if e not in ids:
                    ids = ids + [e]
                if comps:
                    sp.cover('create-auto')
            elif op == 1:
                e = sp.pick(ids, 'e%d' % step)
                ts = pick_types(sp, types, 'createx%d' % step)
                if e in m.tainted and ts:
                    sp.assume(False)
                comps = [T() for T in ts]
                sp.note('create_entity(%s, entity_id=%r)' % (', '.join(T.__name__ + '()' for T in ts), e))
                r = w.create_entity(*comps, entity_id=e)
                sp.check(r == e, 'create-returns-id', 'create_entity(entity_id=%r) returned %r' % (e, r))
                for c in comps:
                    if type(c) in m.ents.get(e, {}):
                        sp.cover('replace')
                    m.put(e, c)
            elif op == 2:
                e = sp.pick(ids, 'e%d' % step)
                T = sp.pick(types, 't%d' % step)
                if e in m.tainted:
                    sp.assume(False)
                c = T()
                donors = [c2 for e2, comps in sorted(m.ents.items(), key=repr) if e2 != e
                          for t2, c2 in comps.items() if t2 is T]
                if donors and sp.flag('share%d' % step):
                    # the SAME instance that another entity already owns (a shared component)
                    c = donors[0]
                    sp.cover('shared-instance')
                    sp.note('add_component(%r, <the %s instance another entity owns>)' % (e, T.__name__))
                else:
                    sp.note('add_component(%r, %s())' % (e, T.__name__))
                replacing = T in m.ents.get(e, {})
                w.add_component(e, c)
                if replacing:
                    sp.cover('replace')
                m.put(e, c)
            elif op == 3:
                e = sp.pick(ids, 'e%d' % step)
                T = sp.pick(types, 't%d' % step)
                sp.note('remove_component(%r, %s)' % (e, T.__name__))
                comps = m.ents.get(e, {})
                r = w.remove_component(e, T)
                matches = [c for t, c in comps.items() if issubclass(t, T)]
                if not matches:
                    sp.check(r is None, 'remove-returns', 'remove_component returned %r, nothing matches' % (r,))
                else:
                    sp.check(any(r is c for c in matches), 'remove-returns',
                             'remove_component(%r, %s) returned %r, not an attached match' % (e, T.__name__, r))
                    if T in comps:
                        sp.check(r is comps[T], 'remove-exact', 'remove_component does not prefer the exact type')
                    del comps[type(r)]
                    sp.cover('remove')
                    if not comps:
                        m.ents.pop(e, None)
                        if e in m.dead:
                            m.tainted.add(e)
            elif op in (4, 5):
                owners = sorted(m.owners(), key=repr)
                if not owners:
                    sp.assume(False)
                e = sp.pick(owners, 'e%d' % step)
                if op == 4:
                    sp.note('delete_entity(%r)' % (e,))
                    w.delete_entity(e)
                    m.dead.add(e)
                    sp.cover('delete-deferred')
                else:
                    sp.note('delete_entity(%r, immediate=True)' % (e,))
                    w.delete_entity(e, immediate=True)
                    m.drop_entity(e)
                    if e in m.dead:
                        m.dead.discard(e)
                        m.tainted.add(e)
                    sp.cover('delete-immediate')
            elif op == 6:
                sp.note('process()')
                if m.dead:
                    sp.cover('process-deletes')
                w.process()
                m.process()
            elif op == 7:
                sp.note('clear()')
                w.clear()
                m.clear()
        except Exception as ex:         # noqa  (engine control flow is BaseException)
            sp.fail('op-raises', '%s: operation raised %r' % (when, ex))
        oracle(sp, w, m, types, ids, when)
    sp.done()


# ------------------------------------------------------------------------------------------ one failing callback
class Boom(Exception):
    pass


ARM = {}


def _maybe_raise(self, event):
    if ARM.get('event') == event and not ARM.get('fired') and (
            ARM.get('inst') is self or (ARM.get('inst') is None and ARM.get('armed-new') and getattr(self, 'new', False))):
        ARM['fired'] = True
        raise Boom('%s of %s fails once' % (event, type(self).__name__))


@desper.event_handler('on_add', 'on_remove')
class FA:
    def on_add(self, entity, world):
        _maybe_raise(self, 'on_add')

    def on_remove(self, entity, world):
        _maybe_raise(self, 'on_remove')


class FB(FA):
    pass


class FC(FB):
    pass


class FN:
    """not a handler"""


FTYPES = [FA, FB, FN, FC]


def h_fault(sp, n_types=3, n_ids=2):
    """A state built from presence bits, then ONE operation during which one lifecycle callback raises once.
    Afterwards the model is re-read from get_components (what each entity owns is the story) and every other
    query must tell the same story; then the world must still be usable: everything can be deleted and a
    process() completes."""
    ARM.clear()
    types = FTYPES[:n_types]
    ids = IDS[:n_ids]
    w = World()
    m = Model()
    for e in ids:
        for T in types:
            if sp.flag('has[%r,%s]' % (e, T.__name__)):
                c = T()
                w.add_component(e, c)
                m.put(e, c)
                sp.note('build add_component(%r, %s())' % (e, T.__name__))
    for e in ids:
        if m.ents.get(e) and sp.flag('dead[%r]' % (e,)):
            w.delete_entity(e)
            m.dead.add(e)
            sp.note('build delete_entity(%r)' % (e,))
    oracle(sp, w, m, types, ids, 'after build')
    event = 'on_add' if sp.flag('fault-in-on_add') else 'on_remove'
    ARM['event'] = event
    if event == 'on_remove':
        cands = [c for comps in m.ents.values() for c in comps.values() if isinstance(c, FA)]
        if not cands:
            sp.assume(False)
        ARM['inst'] = sp.pick(cands, 'armed')
        sp.note('armed: on_remove of the %s attached to %r raises once' % (
            type(ARM['inst']).__name__, [e for e, comps in m.ents.items() if any(c is ARM['inst'] for c in comps.values())][0]))
    else:
        ARM['armed-new'] = True
        sp.note('armed: on_add of the first new handler component raises once')

    def new(T):
        c = T()
        if T is not FN and not ARM.get('one-new'):
            c.new = True
            ARM['one-new'] = True
        return c

    op = sp.choose(6, 'op')
    try:
        if op == 0:
            e = sp.pick(ids, 'e')
            T = sp.pick(types, 't')
            sp.note('add_component(%r, %s())' % (e, T.__name__))
            if T in m.ents.get(e, {}):
                sp.cover('replace')
            w.add_component(e, new(T))
        elif op == 1:
            e = sp.pick(ids, 'e')
            ts = pick_types(sp, types, 'create')
            sp.note('create_entity(%s, entity_id=%r)' % (', '.join(T.__name__ + '()' for T in ts), e))
            w.create_entity(*[new(T) for T in ts], entity_id=e)
        elif op == 2:
            e = sp.pick(ids, 'e')
            T = sp.pick(types, 't')
            sp.note('remove_component(%r, %s)' % (e, T.__name__))
            w.remove_component(e, T)
        elif op == 3:
            owners = sorted(m.owners(), key=repr)
            if not owners:
                sp.assume(False)
            e = sp.pick(owners, 'e')
            sp.note('delete_entity(%r, immediate=True)' % (e,))
            if len(m.ents[e]) > 1:
                sp.cover('multi-delete-immediate')
            w.delete_entity(e, immediate=True)
        elif op == 4:
            for e in sorted(m.owners(), key=repr):
                if e not in m.dead and sp.flag('also-delete[%r]' % (e,)):
                    sp.note('delete_entity(%r)' % (e,))
                    w.delete_entity(e)
            sp.note('process()')
            w.process()
        elif op == 5:
            sp.note('clear()')
            w.clear()
    except Boom:
        sp.cover('fault-fired')
        sp.cover('fault-in-' + event)
        sp.note('  -> the armed callback raised')
    except Exception as ex:         # noqa
        import traceback
        sp.fail('op-raises', 'the operation raised %r at %s' % (ex, traceback.extract_tb(ex.__traceback__)[-1][:3]))
    if not ARM.get('fired'):
        sp.assume(False)            # paths without a fault are shape I of harness world
    # the story: what each entity owns
    story = Model()
    try:
        for e in ids:
            comps = w.get_components(e)
            sp.check(len({type(c) for c in comps}) == len(comps), 'get_components',
                     'after the failed operation get_components(%r) lists two components of one type' % (e,))
            for c in comps:
                story.put(e, c)
    except Exception as ex:         # noqa
        sp.fail('query-raises', 'after the failed operation get_components raised %r' % (ex,))
    try:
        _oracle(sp, w, story, types, ids, 'after the failed operation', check_alive=False)
    except Exception as ex:         # noqa
        import traceback
        sp.fail('query-raises', 'after the failed operation a query raised %r at %s' % (
            ex, traceback.extract_tb(ex.__traceback__)[-1][:3]))
    # the world is still usable: delete everything (either way), process, nothing is left
    deferred = bool(sp.flag('recover-deferred'))
    try:
        for e in sorted(story.owners(), key=repr):
            if deferred:
                if w.entity_exists(e):
                    sp.note('recovery: delete_entity(%r)' % (e,))
                    w.delete_entity(e)
            else:
                sp.note('recovery: delete_entity(%r, immediate=True)' % (e,))
                w.delete_entity(e, immediate=True)
        sp.note('recovery: process()')
        w.process()
        sp.cover('recovered-deferred' if deferred else 'recovered-immediate')
    except Exception as ex:         # noqa
        import traceback
        sp.fail('recovery-raises', 'after the failed operation, deleting what is left and process() raised %r at %s' % (
            ex, traceback.extract_tb(ex.__traceback__)[-1][:3]))
    oracle(sp, w, Model(), types, ids, 'after recovery')
    sp.done()


HARNESSES = {
    'fault': dict(fn=h_fault, nontrivial=['fault-fired'],
                  required=['fault-fired', 'fault-in-on_add', 'fault-in-on_remove', 'replace', 'multi-delete-immediate',
                            'recovered-deferred', 'recovered-immediate']),
    'world': dict(fn=h_world,
                  nontrivial=['replace', 'remove', 'delete-deferred', 'delete-immediate', 'process-deletes',
                              'create-auto'],
                  required=['replace', 'remove', 'delete-deferred', 'delete-immediate', 'create-auto', 'shared-instance']),
}

TIERS = {
    'quick': [
        ('world', dict(n_ids=2, n_types=3, build=True, steps=1)),
        ('world', dict(n_ids=0, n_types=2, build=False, steps=2, ops_ids=3)),
        ('world', dict(n_ids=1, n_types=4, build=True, steps=1, ops_ids=1, universe='diamond'),
         dict(required=['replace', 'remove', 'diamond-universe'])),
        ('world', dict(n_ids=1, n_types=3, build=True, steps=1, ops_ids=2, universe='falsy'),
         dict(required=['replace', 'remove', 'falsy-universe'])),
        ('world', dict(n_ids=1, n_types=3, build=True, steps=1, ops_ids=2, universe='empty'),
         dict(required=['replace', 'remove', 'empty-universe'])),
        ('world', dict(n_ids=1, n_types=3, build=True, steps=1, ops_ids=2, universe='all-equal'),
         dict(required=['replace', 'remove', 'all-equal-universe'])),
        ('fault', dict(n_types=3, n_ids=2)),
    ],
    'thorough': [
        ('world', dict(n_ids=3, n_types=3, build=True, steps=1)),
        ('world', dict(n_ids=2, n_types=4, build=True, steps=1)),
        ('world', dict(n_ids=2, n_types=3, build=True, steps=2)),
        ('world', dict(n_ids=0, n_types=4, build=False, steps=3, ops_ids=3)),
        ('world', dict(n_ids=0, n_types=2, build=False, steps=4, ops_ids=2)),
        ('world', dict(n_ids=2, n_types=4, build=True, steps=1, ops_ids=2, universe='diamond')),
        ('world', dict(n_ids=2, n_types=3, build=True, steps=1, ops_ids=2, universe='falsy')),
        ('world', dict(n_ids=2, n_types=3, build=True, steps=1, ops_ids=2, universe='empty')),
        ('world', dict(n_ids=2, n_types=3, build=True, steps=1, ops_ids=2, universe='all-equal')),
        ('world', dict(n_ids=0, n_types=3, build=False, steps=3, ops_ids=2, universe='falsy')),
        ('fault', dict(n_types=4, n_ids=2)),
    ],
}
BUDGET_S = {'quick': 120, 'thorough': 1500}

EXPLANATION = (
    'Bounded symbolic execution of the real desper.World: the harness builds a world state from '
    'symbolic presence/dead bits through the public API (shape I) or starts from the empty world (shape H), '
    'applies symbolic operations (opcode, entity, types are solver variables) and after every operation '
    'compares all eight query methods with a dict-based reference model.  Every branch on a symbolic value is '
    'decided by z3; the explorer visits every feasible path inside the bounds and certifies none was skipped.')
RULE = ('one evaluation = one feasible path of the decision tree (distinct by construction); non-trivial = the '
        'path performed at least one replacement, removal, deferred or immediate deletion, deletion at process, '
        'or automatic id creation with components')
BOUNDS = {
    'quick': 'types A,B(A),C(B); shape I: 2 ids x 3 types presence bits + dead bits, 1 operation; '
             'shape H: 2 operations from the empty world over types A,B and ids 1, 2 and the tuple id (\'k\', 1); fault: 2 ids x 3 types (FA, FB(FA), FN), one failing callback; diamond universe A,B(A),M(A),D(B,M) on one id, 1 operation',
    'thorough': 'types A,B(A),C(B),X; shape I: 3 ids x 3 types, 1 op; 2 ids x 4 types, 1 op; 2 ids x 3 types, 2 ops; diamond universe on 2 ids, 1 op; '
                'shape H: 3 ops (ids 1,2,k; 4 types) and 4 ops (ids 1,2; 2 types)',
}
ASSUMPTIONS = [
    'components in one create_entity call have distinct exact types',
    'one component instance may be attached to two entities at once (add_component of an instance another entity owns): every owner is listed',
    're-populating an id that was emptied while its deferred-deletion mark was pending is outside the claim '
    '(the statement does not say which incarnation the mark belongs to); such paths are cut by assume',
    'delete_entity is only called on entities that own components (documented KeyError otherwise)',
    'component hierarchies here: the chain A,B(A),C(B),X and the diamond A,B(A),M(A),D(B,M); all DAGs are C06',
]
OUTSIDE = ['histories longer than the bound that do not end in a canonically built state',
           'unhashable ids (assert)', 'universes larger than the stated alphabets']

TECHNIQUE = 'bounded symbolic execution of the real World (symx/z3 path exploration): inductive step from symbolically built states + bounded histories, reference-model oracle'
