"""C12 — a handle loads its resource at most once between clears.

Shape H(L): handles stored in a resource tree (h0 under the private-style name '_k', h1 at 'a/k'), a static
snapshot taken up-front, then L symbolic operations: an access through one of the access paths, `h.clear()`, or
(handles that load a `desper.World`) `SimpleLoop.switch(h, clear_current=, clear_next=)`.

The handles log their own `load()` and `clear()` invocations (subclass overrides that defer to the base class),
so the oracle is the statement read over that event log: never two loads without a clear in between; every
access returns the object of the latest load; `cached` (public property) tells whether the access loads.
"""
import desper
from desper.model import Handle, ResourceMap

PROPERTY = 'C12'


class Weird:
    """value with unusual comparison / truth protocol"""
    __hash__ = None

    def __eq__(self, other):
        raise RuntimeError('Weird.__eq__ called')

    def __ne__(self, other):
        raise RuntimeError('Weird.__ne__ called')

    def __bool__(self):
        raise RuntimeError('Weird.__bool__ called')

    def __len__(self):
        raise RuntimeError('Weird.__len__ called')


KINDS = ['None', '0', "''", '[]', 'weird', '7', 'world']


def make(kind):
    if kind == 'None':
        return None
    if kind == '0':
        return 0
    if kind == "''":
        return ''
    if kind == '[]':
        return []
    if kind == 'weird':
        return Weird()
    if kind == '7':
        return 7
    return desper.World()


FLAVOURS = ('falsy', 'empty', 'equal')
_flavoured = {}


def flavoured(base, flavour):
    """subclass of `base` whose INSTANCES have unusual truthiness / equality (identity is what counts):
    falsy: __bool__ False; empty: __len__ 0; equal: == everything, constant hash"""
    if flavour == 'plain':
        return base
    if (base, flavour) not in _flavoured:
        ns = {'falsy': {'__bool__': lambda self: False},
              'empty': {'__len__': lambda self: 0},
              'equal': {'__eq__': lambda self, other: True, '__ne__': lambda self, other: False,
                        '__hash__': lambda self: 7}}[flavour]
        _flavoured[(base, flavour)] = type(flavour.capitalize() + base.__name__, (base,), dict(ns))
    return _flavoured[(base, flavour)]


class LoadFault(OSError):
    """the transient failure injected into load()"""


class LoadAbort(BaseException):
    """a load() interrupted the way KeyboardInterrupt / SystemExit / CancelledError interrupt it: not an Exception"""


FAULTS = (LoadFault, LoadAbort)


class LogHandle(Handle):
    def __init__(self, name, kind, fail_at=0, fault_cls=LoadFault):
        self.fault_cls = fault_cls
        self.name = name
        self.kind = kind
        self.events = []            # ('load', value) | ('clear',) | ('fail',)
        self.fail_at = fail_at      # 1-based number of the load attempt that raises (0: never)
        self.attempts = 0

    def load(self):
        self.attempts += 1
        if self.attempts == self.fail_at:
            self.events.append(('fail',))
            raise self.fault_cls('resource temporarily unavailable (load attempt %d)' % self.attempts)
        v = make(self.kind)
        self.events.append(('load', v))
        return v

    def clear(self):
        self.events.append(('clear',))
        super().clear()

    def __repr__(self):
        return '<%s>' % self.name


class _Skip(Exception):
    """leave the per-operation checks (harness-internal)"""


class Track:
    """model of one handle"""

    def __init__(self, h):
        self.h = h
        self.seen = 0
        self.cached = False
        self.has_value = False
        self.value = None
        self.loads = 0
        self.nf = 0                 # failed load attempts absorbed in the current step
        self.after_fault = False    # the previous access to this handle failed in load()
        self.via_second = False     # the latest load happened through the second map
        self.kept_taken_cached = False      # the kept static snapshot was taken while this handle was cached


def absorb(sp, t, when):
    """replay the new events of handle t.h on the model; returns (n_loads, n_clears) of this step"""
    nl = nc = 0
    t.nf = 0
    for ev in t.h.events[t.seen:]:
        if ev[0] == 'clear':
            t.cached = False
            nc += 1
        elif ev[0] == 'fail':
            sp.check(not t.cached, 'load-at-most-once',
                     '%s: %r.load() was attempted again although no clear() happened since its last load' % (
                         when, t.h))
            sp.check(t.nf == 0 and nl == 0, 'load-at-most-once',
                     '%s: %r.load() ran more than once within one access' % (when, t.h))
            t.nf += 1
        else:
            sp.check(not t.cached, 'load-at-most-once',
                     '%s: %r.load() ran again although no clear() happened since its last load (load #%d)' % (
                         when, t.h, t.loads + 1))
            t.cached = True
            t.has_value = True
            t.value = ev[1]
            t.loads += 1
            nl += 1
    t.seen = len(t.h.events)
    return nl, nc


def h_access(sp, L=3, n_handles=2, kinds=KINDS, faults=0, retake=False, flavours=('plain',), second_owner=False,
             fault_kinds=('error',), deep=False):
    kind = sp.pick(list(kinds), 'kind')
    # load fault: the load attempt number `fail_at` (solver-chosen in 1..faults) of every handle raises once
    fail_at = sp.choose(faults, 'fail_at') + 1 if faults else 0
    # what interrupts the load: an ordinary error (OSError subclass) or an abort that is a BaseException but not an
    # Exception (the shape of KeyboardInterrupt, SystemExit, asyncio.CancelledError)
    fault_kind = sp.pick(list(fault_kinds), 'fault_kind') if faults else 'error'
    fault_cls = LoadAbort if fault_kind == 'abort' else LoadFault
    flavour = sp.pick(list(flavours), 'flavour')       # instance flavour of the handle objects and of the maps
    HandleCls = flavoured(LogHandle, flavour)
    m = flavoured(ResourceMap, flavour)()
    if flavour != 'plain':
        sp.cover('flavour-' + flavour)
    hs = []
    if deep:
        # handles at the third and fourth nesting level; the relative key 'a/b/k' names h1 from the root and h0
        # from the sub-map 'z' (two maps with the same layout below them)
        if n_handles >= 2:
            h0 = HandleCls('h0@z/a/b/k', kind, fail_at, fault_cls)
            m['z/a/b/k'] = h0
            hs.append(h0)
        h1 = HandleCls('h1@a/b/k', kind, fail_at, fault_cls)
        m['a/b/k'] = h1
        hs.append(h1)
        sp.cover('deep-handles')
    else:
        if n_handles >= 2:
            h0 = HandleCls('h0@_k', kind, fail_at, fault_cls)
            m['_k'] = h0
            hs.append(h0)
        h1 = HandleCls('h1@a/k', kind, fail_at, fault_cls)
        m['a/k'] = h1
        hs.append(h1)
    m2 = st2 = None
    if second_owner:
        # the same handle OBJECT stored in a second map after it already belongs to the first one
        m2 = flavoured(ResourceMap, flavour)()
        m2['sub/x'] = h1
        st2 = m2.get_static_map()
    st = m.get_static_map()
    tracks = [Track(h) for h in hs]
    loop = desper.SimpleLoop() if kind == 'world' else None
    sp.note('handle objects: %s; loaded value kind: %s%s' % (flavour, kind, ', load attempt %d raises %s' % (fail_at, fault_cls.__name__) if fail_at else ''))

    def paths_for(h):
        if deep and h is h1:
            return [('h()', lambda: h()),
                    ("m['a/b/k']", lambda: m['a/b/k']),
                    ("m['a']['b/k']", lambda: m['a']['b/k']),
                    ("m['a/b']['k']", lambda: m['a/b']['k']),
                    ('static.a.b.k', lambda: st.a.b.k),
                    ("static['a']['b']['k']", lambda: st['a']['b']['k'])]
        if deep:
            return [('h()', lambda: h()),
                    ("m['z/a/b/k']", lambda: m['z/a/b/k']),
                    ("m['z']['a/b/k']", lambda: m['z']['a/b/k']),
                    ("m['z/a']['b/k']", lambda: m['z/a']['b/k']),
                    ('static.z.a.b.k', lambda: st.z.a.b.k),
                    ("m.get_static_map()['z']['a']['b']['k']", lambda: m.get_static_map()['z']['a']['b']['k'])]
        if h is h1:
            return [('h()', lambda: h()),
                    ("m['a/k']", lambda: m['a/k']),
                    ("m['a']['k']", lambda: m['a']['k']),
                    ('static.a.k', lambda: st.a.k),
                    ("static['a']['k']", lambda: st['a']['k']),
                    ("static.get('a').get('k')()", lambda: st.get('a').get('k')()),
                    ('m.get_static_map().a.k', lambda: m.get_static_map().a.k)] + ([
                        ("second map m2['sub/x']", lambda: m2['sub/x']),
                        ("second map m2['sub']['x']", lambda: m2['sub']['x']),
                        ('second map static2.sub.x', lambda: st2.sub.x),
                        ("second map m2.get('sub/x')()", lambda: m2.get('sub/x')())] if second_owner else [])
        return [('h()', lambda: h()),
                ("m['_k']", lambda: m['_k']),
                ('static._k', lambda: st._k),
                ("static['_k']", lambda: st['_k']),
                ("static.get('_k')()", lambda: st.get('_k')()),
                ('m.get_static_map()._k', lambda: m.get_static_map()._k)]

    for step in range(L):
        when = 'step %d' % step
        ti = sp.choose(len(tracks), 'h%d' % step)
        t = tracks[ti]
        h = t.h
        acc = paths_for(h)
        nsw = 4 if loop is not None else 0
        # retake: replace the kept static snapshot by one taken now (possibly while handles are cached);
        # it concerns no particular handle, so it is offered once (with the first handle)
        nops = len(acc) + 1 + nsw + (1 if retake and ti == 0 else 0)
        op = sp.choose(nops, 'op%d' % step)
        for u in tracks:
            sp.check(u.h.cached is u.cached, 'cached-flag',
                     '%s: %r.cached is %r, model says %r' % (when, u.h, u.h.cached, u.cached))
        before = t.cached
        try:
            if op < len(acc):
                name, fn = acc[op]
                sp.note('%s  -> %s' % (h, name))
                try:
                    r = fn()
                    fault = None
                except FAULTS as ex:
                    fault = ex
                nl, nc = absorb(sp, t, when)
                if fault is not None or t.nf:
                    # a failed load: nothing was loaded, so the exception reaches the accessor, the handle is
                    # not cached afterwards (checked below for every handle) and the next access loads afresh
                    sp.check(fault is not None, 'load-fault-propagates',
                             '%s: load() raised inside %s but the access returned normally' % (when, name))
                    sp.check(not before and nl == 0 and nc == 0 and t.nf == 1, 'cached-predicts',
                             '%s: cached was %r before %s; %d failed and %d completed loads' % (
                                 when, before, name, t.nf, nl))
                    t.after_fault = True
                    sp.cover('load-fault')
                    if fault_kind == 'abort':
                        sp.cover('load-abort')
                    if t.loads:
                        sp.cover('load-fault-after-clear')
                    raise _Skip()
                if t.after_fault:
                    t.after_fault = False
                    sp.cover('access-after-fault')
                    if fault_kind == 'abort':
                        sp.cover('access-after-abort')
                    if 'static' in name:
                        sp.cover('static-access-after-fault')
                sp.check(nc == 0, 'cached-predicts',
                         '%s: plain access %s cleared the handle' % (when, name))
                sp.check(nl == (0 if before else 1), 'cached-predicts',
                         '%s: cached was %r before %s, yet load() ran %d times' % (when, before, name, nl))
                sp.check(t.has_value and r is t.value, 'same-object',
                         '%s: %s returned %r, not the object of the latest load' % (when, name, type(r)))
                if before:
                    sp.cover('cached-hit')
                    if kind in ('None', '0', "''", '[]', 'weird'):
                        sp.cover('cached-hit-falsy')
                elif t.loads > 1:
                    sp.cover('reload-after-clear')
                if 'static' in name:
                    sp.cover('static-access')
                if name.startswith('second map'):
                    sp.cover('second-owner-access')
                    sp.cover('second-owner-cached-hit' if before else 'second-owner-load')
                    if not before and t.loads > 1:
                        sp.cover('second-owner-reload-after-clear')
                elif t.via_second and before:
                    sp.cover('first-owner-hit-after-second-owner-load')
                t.via_second = name.startswith('second map') if not before else t.via_second
                if name.startswith('static') and t.kept_taken_cached:
                    sp.cover('kept-static-taken-while-cached')
                    if not before:
                        sp.cover('kept-static-reload-after-clear')
            elif op == len(acc) + 1 + nsw:
                sp.note('static = m.get_static_map()   (kept snapshot re-taken; cached: %s)' % (
                    ', '.join('%r=%r' % (u.h, u.cached) for u in tracks)))
                st = m.get_static_map()
                sp.cover('retake')
                for u in tracks:
                    u.kept_taken_cached = u.cached
                    if u.cached:
                        sp.cover('retake-while-cached')
            elif op == len(acc):
                sp.note('%s.clear()' % (h,))
                h.clear()
                absorb(sp, t, when)
                sp.check(t.cached is False, 'clear-uncaches', '%s: clear() did not run' % when)
                if before:
                    sp.cover('clear-cached')
            else:
                k = op - len(acc) - 1
                cc, cn = bool(k & 1), bool(k & 2)
                cur = loop.current_world_handle
                sp.note('loop.switch(%s, clear_current=%r, clear_next=%r)   (current handle %r)' % (h, cc, cn, cur))
                try:
                    loop.switch(h, clear_current=cc, clear_next=cn)
                    fault = None
                except FAULTS as ex:
                    fault = ex
                nl, nc = absorb(sp, t, when)
                if fault is not None or t.nf:
                    sp.check(fault is not None, 'load-fault-propagates',
                             '%s: load() raised inside switch but switch returned normally' % when)
                    sp.check(nl == 0 and t.nf == 1, 'load-at-most-once',
                             '%s: %d failed and %d completed loads in one switch' % (when, t.nf, nl))
                    t.after_fault = True
                    sp.cover('load-fault')
                    sp.cover('switch-load-fault')
                    raise _Skip()
                if t.after_fault:
                    t.after_fault = False
                    sp.cover('access-after-fault')
                r = loop.current_world
                if nc == 0:
                    sp.check(nl == (0 if before else 1), 'cached-predicts',
                             '%s: cached was %r before switch without clearing, yet load() ran %d times' % (
                                 when, before, nl))
                sp.check(t.cached, 'same-object', '%s: switch left the target handle unloaded' % when)
                sp.check(t.has_value and r is t.value, 'same-object',
                         '%s: loop.current_world is not the object of the latest load' % when)
                sp.cover('switch')
                if nc:
                    sp.cover('switch-clears')
        except _Skip:
            pass
        except Exception as ex:         # noqa  (engine control flow is BaseException)
            sp.fail('op-raises', '%s: operation raised %r' % (when, ex))
        for u in tracks:
            absorb(sp, u, when)
            sp.check(u.h.cached is u.cached, 'cached-flag',
                     '%s: after the operation %r.cached is %r, model says %r' % (when, u.h, u.h.cached, u.cached))
    sp.done()


HARNESSES = {
    'access': dict(fn=h_access,
                   nontrivial=['cached-hit', 'reload-after-clear', 'static-access', 'clear-cached', 'switch',
                               'switch-clears', 'cached-hit-falsy', 'load-fault', 'access-after-fault'],
                   required=['cached-hit', 'cached-hit-falsy', 'reload-after-clear', 'static-access',
                             'clear-cached', 'switch', 'switch-clears']),
}

_FAULT_REQ = ['load-fault', 'access-after-fault', 'static-access-after-fault', 'load-fault-after-clear',
              'cached-hit', 'reload-after-clear']

_ABORT_REQ = ['load-abort', 'access-after-abort']

_DEEP_REQ = ['deep-handles', 'cached-hit', 'reload-after-clear', 'static-access', 'clear-cached']

_FLAV_REQ = ['flavour-falsy', 'flavour-empty', 'flavour-equal', 'cached-hit', 'reload-after-clear', 'static-access',
             'clear-cached', 'switch', 'switch-clears']
_SECOND_REQ = ['second-owner-access', 'second-owner-cached-hit', 'second-owner-load', 'second-owner-reload-after-clear',
               'first-owner-hit-after-second-owner-load', 'cached-hit', 'static-access', 'clear-cached']
_RETAKE_REQ = ['retake', 'retake-while-cached', 'kept-static-taken-while-cached', 'kept-static-reload-after-clear',
               'cached-hit', 'reload-after-clear', 'static-access', 'clear-cached']

TIERS = {
    'quick': [('access', dict(L=3, n_handles=2)),
              ('access', dict(L=4, n_handles=1, kinds=['None', '[]'], retake=True), {'required': _RETAKE_REQ}),
              ('access', dict(L=4, n_handles=1, kinds=['[]'], faults=2, fault_kinds=('error', 'abort')),
               {'required': _FAULT_REQ + _ABORT_REQ}),
              ('access', dict(L=3, n_handles=1, kinds=['world'], faults=2),
               {'required': _FAULT_REQ[:2] + ['switch-load-fault']}),
              ('access', dict(L=3, n_handles=1, kinds=['[]', 'world'], flavours=FLAVOURS), {'required': _FLAV_REQ}),
              ('access', dict(L=3, n_handles=1, kinds=['None', '[]'], second_owner=True), {'required': _SECOND_REQ}),
              ('access', dict(L=4, n_handles=1, kinds=['[]'], deep=True), {'required': _DEEP_REQ}),
              ('access', dict(L=3, n_handles=2, kinds=['[]'], deep=True), {'required': _DEEP_REQ})],
    'thorough': [('access', dict(L=5, n_handles=1, retake=True),
                  {'required': _RETAKE_REQ + ['switch', 'switch-clears', 'cached-hit-falsy']}),
                 ('access', dict(L=4, n_handles=2)),
                 ('access', dict(L=4, n_handles=2, kinds=['[]'], retake=True), {'required': _RETAKE_REQ}),
                 ('access', dict(L=4, n_handles=1, faults=3, fault_kinds=('error', 'abort')),
                  {'required': _FAULT_REQ + _ABORT_REQ + ['switch-load-fault']}),
                 ('access', dict(L=3, n_handles=2, faults=2), {'required': _FAULT_REQ + ['switch-load-fault']}),
                 ('access', dict(L=4, n_handles=1, flavours=FLAVOURS), {'required': _FLAV_REQ + ['cached-hit-falsy']}),
                 ('access', dict(L=3, n_handles=2, kinds=['[]', 'world'], flavours=FLAVOURS), {'required': _FLAV_REQ}),
                 ('access', dict(L=4, n_handles=1, kinds=['None', '[]', 'world'], second_owner=True),
                  {'required': _SECOND_REQ}),
                 ('access', dict(L=4, n_handles=2, kinds=['None', '[]'], deep=True), {'required': _DEEP_REQ}),
                 ('access', dict(L=5, n_handles=1, kinds=['[]'], deep=True), {'required': _DEEP_REQ})],
}
BUDGET_S = {'quick': 300, 'thorough': 1500}

EXPLANATION = (
    'Bounded symbolic execution of the real Handle / ResourceMap / StaticResourceMap / SimpleLoop.switch code: '
    'the loaded value kind, the handle, the access path and the clear points of a history of L operations are '
    'finite-domain solver variables; handles record their own load()/clear() invocations and the oracle replays '
    'that log after every operation (no second load without a clear, identical object returned, cached predicts '
    'loading).  z3 decides every fork; the explorer visits every feasible path within the bounds.')
RULE = ('one evaluation = one feasible path of the decision tree (distinct histories by construction); '
        'non-trivial = the path contains an access served from the cache, a reload after a clear, an access '
        'through a static map, a clear of a cached handle or a loop switch')
BOUNDS = {
    'quick': 'value kinds None,0,\'\',[],object with raising __eq__/__bool__/__len__,7,World; 2 handles '
             '(_k and a/k); 6-7 access paths per handle + clear (+4 switch variants for World); all histories of 3 ops; '
             'kept snapshot re-taken at any point: 1 handle, kinds None,[], 4 ops; load faults (load attempt 1 or 2 raises once; error or non-Exception abort for kind []): 1 handle, kind [] with 4 ops, kind World with 3 ops; deep layout (h1 at a/b/k, h0 at z/a/b/k, 6 access paths each, kind []): 1 handle 4 ops, 2 handles 3 ops',
    'thorough': 'same kinds; 1 handle (a/k): all histories of 5 ops incl. re-taking the kept snapshot; 2 handles: all '
                'histories of 4 ops (kind [] also with re-take); load faults: '
                'all kinds, 1 handle, attempt 1..3 raises (error or non-Exception abort), 4 ops; 2 handles, attempt 1..2, 3 ops; deep layout: 2 handles 4 ops (kinds None, []), 1 handle 5 ops',
}
ASSUMPTIONS = [
    'second-owner entries: the same Handle object is stored in a second map after it already belongs to the first; '
    'the access paths through the second map (and its static snapshot) are ordinary access paths of that handle',
    'flavour entries: the Handle objects (and the maps holding them) are instances of subclasses that are falsy, '
    'empty (__len__ 0) or equal to everything; the oracle is unchanged and only compares identities',
    'load fault entries: a load() that raises has loaded nothing, so the exception must reach the accessor (there is '
    'no object an access could return, and a silent retry would be a second load), the handle is not cached '
    'afterwards and the next access loads afresh and returns that object; the fault is raised once, at a solver-chosen '
    'load attempt, and is either an OSError subclass or (fault_kinds) a BaseException subclass that is not an Exception '
    '(the shape of KeyboardInterrupt / SystemExit / CancelledError interrupting a loader)',
    'load()/clear() invocations are observed by overriding them in a Handle subclass (the overrides defer to '
    'the base class); an implementation that invalidated its cache without calling clear() would be reported',
    'loading a handle as a side effect of accessing a different one is accepted (the statement does not forbid it)',
    'for SimpleLoop.switch with a clear flag the statement does not say whether the clear applies; any number '
    'of clear() calls is accepted there and only the event-log rules are enforced (C13 owns the rest)',
    'one static snapshot is taken before the history and kept, further ones at access time (access path '
    'm.get_static_map()...); with retake=True an operation replaces the kept snapshot by one taken at that point '
    'of the history (handles may be cached then); the oracle for accesses through it is unchanged',
]
OUTSIDE = ['user subclasses overriding __call__ or clear without deferring to Handle',
           'concurrent access from several threads', 'histories longer than the bound']

TECHNIQUE = 'bounded symbolic execution (symx/z3) of access/clear histories over all access paths and unusual loaded values'
