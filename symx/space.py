"""symx.space — a small symbolic-execution core on z3.

The code under test is executed by the real interpreter; symbolic values are proxy objects
(symx.proxies) whose operators build z3 terms and whose truth value is decided here by the
solver.  Exploration is depth-first over the decision tree, re-running the harness from
scratch for every path.

Decision-tree entries are n-ary:
  * a Bool decision (``SBool.__bool__``) has the alternatives feasible under the current path
    condition, established by z3 (one query per side, the cached model answers one side);
  * ``choose(n)`` concretises a *fresh* Int variable ``0 <= v < n``; every value is feasible by
    construction (no constraint mentions a fresh variable), so the n-way fork needs no query,
    but ``v == k`` is asserted so that models and replays carry the choice.
"""
from __future__ import annotations

import random
import time
from fractions import Fraction

import z3


class Control(BaseException):
    """Engine control flow.  BaseException: desper has `except Exception` clauses."""


class Infeasible(Control):
    pass


class Cut(Control):
    """Raised by the splitter when the frontier depth is reached."""


class TwinReached(Control):
    """Reachability twin: the harness reached its final `done()`."""


class Inconclusive(Control):
    def __init__(self, why):
        super().__init__(why)
        self.why = why


class Violation(Control):
    def __init__(self, clause, info=None, detail=''):
        super().__init__(clause)
        self.clause = clause
        self.info = dict(info or {})
        self.detail = detail
        self.assignment = None
        self.trace = None
        self.decisions = None


class Nondeterminism(Control):
    pass


GRID = 1024
GRID_MAX = 1 << 20


def _val_to_py(v):
    """z3 model value -> python (bool/int/Fraction) or string for algebraic numbers."""
    if z3.is_true(v):
        return True
    if z3.is_false(v):
        return False
    if z3.is_int_value(v):
        return v.as_long()
    if z3.is_rational_value(v):
        return Fraction(v.numerator_as_long(), v.denominator_as_long())
    if z3.is_algebraic_value(v):
        a = v.approx(40)
        return Fraction(a.numerator_as_long(), a.denominator_as_long())
    raise ValueError('cannot convert model value %r' % (v,))


def encode_value(v):
    if isinstance(v, bool) or isinstance(v, int):
        return v
    if isinstance(v, Fraction):
        return {'frac': [v.numerator, v.denominator]}
    raise TypeError(v)


def decode_value(v):
    if isinstance(v, dict) and 'frac' in v:
        return Fraction(v['frac'][0], v['frac'][1])
    return v


class Space:
    """Symbolic space: hands out proxies, decides branches with z3, drives the DFS."""

    symbolic = True

    def __init__(self, nonlinear=False, timeout_ms=30000, seed=0, forced=(),
                 depth_limit=None, twin=False, known=None):
        from . import proxies
        self._px = proxies
        self.nonlinear = nonlinear
        self.timeout_ms = timeout_ms
        self.rng = random.Random(seed)
        self.depth_limit = depth_limit
        self.twin = twin
        self.known = known          # callable(clause, info) -> entry or None
        # entries: [value, remaining alternatives (list), termhash]
        self.prefix = [[v, [], None] for v in forced]
        self.n_forced = len(self.prefix)
        self.solver = None
        if not nonlinear:
            self.solver = z3.Solver()
            self.solver.set('timeout', timeout_ms)
        # statistics
        self.queries = 0
        self.q_sat = 0
        self.q_unsat = 0
        self.q_unknown = 0
        self.solver_time = 0.0
        self.paths = 0              # completed paths (reached end of harness or an oracle verdict)
        self.infeasible = 0
        self.unsat_log = None       # optional list of (pc, extra) for cross-checking

    # ------------------------------------------------------------------ per path
    def begin(self):
        self.pos = 0
        self.ndraw = 0
        self.nwit = 0
        self.choices = {}           # nonlinear mode: choose() values kept out of the path condition
        self.vars = []              # (name, z3 const, kind)
        self.pc = []
        self.trace = []
        self.covers = set()
        self.model = None
        self.model_valid = True     # empty pc: any model will do
        if self.solver is not None:
            self.solver.push()

    def end(self):
        if self.solver is not None:
            self.solver.pop()

    # ------------------------------------------------------------------ solver access
    def _query(self, extra=None):
        t = time.perf_counter()
        if self.solver is not None:
            s = self.solver
            r = s.check(extra) if extra is not None else s.check()
        else:
            s = z3.Solver()
            s.set('timeout', self.timeout_ms)
            s.add(*self.pc)
            if extra is not None:
                s.add(extra)
            r = s.check()
        self.solver_time += time.perf_counter() - t
        self.queries += 1
        if r == z3.sat:
            self.q_sat += 1
            return True, s.model()
        if r == z3.unsat:
            self.q_unsat += 1
            if self.unsat_log is not None:
                self.unsat_log.append((list(self.pc), extra))
            return False, None
        self.q_unknown += 1
        raise Inconclusive('solver returned unknown: %s' % s.reason_unknown())

    def _add(self, e):
        self.pc.append(e)
        if self.solver is not None:
            self.solver.add(e)

    def _ensure_model(self):
        if self.model is None and self.pc:
            ok, m = self._query()
            if not ok:
                raise Infeasible()
            self.model = m

    def _eval(self, e):
        """Value of Bool term e under the cached model (None if unknown)."""
        if self.model is None:
            return None
        v = self.model.eval(e, model_completion=True)
        if z3.is_true(v):
            return True
        if z3.is_false(v):
            return False
        return None

    # ------------------------------------------------------------------ variables
    def _fresh(self, sort, kind, label):
        """kinds b/i/r/c are drawn by the harness (numbered by draw order, the same numbering ConcreteSpace
        uses); any other kind is an internal witness (sqrt, remainder) with its own counter."""
        if kind in 'birc':
            name = '%s%d:%s' % (kind, self.ndraw, label or '')
            self.ndraw += 1
        else:
            name = 'w%d!%s:%s' % (self.nwit, kind, label or '')
            self.nwit += 1
        c = z3.Const(name, sort)
        self.vars.append((name, c, kind))
        return c

    def flag(self, label=''):
        return self._px.SBool(self, self._fresh(z3.BoolSort(), 'b', label))

    def int(self, label='', lo=None, hi=None):
        c = self._fresh(z3.IntSort(), 'i', label)
        if lo is not None:
            self._add(c >= lo)
        if hi is not None:
            self._add(c <= hi)
        return self._px.SInt(self, c)

    def real(self, label='', lo=None, hi=None):
        c = self._fresh(z3.RealSort(), 'r', label)
        if lo is not None:
            self._add(c >= lo)
        if hi is not None:
            self._add(c <= hi)
        return self._px.SReal(self, c)

    def choose(self, n, label=''):
        """Concrete int in range(n); n-way fork on a fresh Int variable."""
        assert isinstance(n, int) and n >= 1
        c = self._fresh(z3.IntSort(), 'c', label)
        k = 0 if n == 1 else self._branch(list(range(n)), None)
        if self.nonlinear:
            # Int constraints in the path condition keep z3 off nlsat: the value is concrete anyway
            self.choices[c.decl().name()] = k
            return k
        self._add(c == k)
        # model stays a model only if it happens to agree; cheapest is to drop it
        self.model = None
        return k

    def pick(self, seq, label=''):
        return seq[self.choose(len(seq), label)]

    # ------------------------------------------------------------------ branching
    def _branch(self, alternatives, termhash):
        """Take/replay an n-ary decision whose feasible alternatives are given."""
        if self.pos < len(self.prefix):
            ent = self.prefix[self.pos]
            if ent[2] is not None and termhash is not None and ent[2] != termhash:
                raise Nondeterminism('decision %d presents a different term on re-run' % self.pos)
            if ent[2] is None:
                ent[2] = termhash
            self.pos += 1
            return ent[0]
        if self.depth_limit is not None and self.pos >= self.depth_limit:
            raise Cut()
        alts = list(alternatives)
        if len(alts) > 1 and not (len(alts) == 2 and isinstance(alts[0], bool)):
            self.rng.shuffle(alts)
        elif len(alts) == 2 and self.rng.random() < 0.5:
            alts.reverse()
        self.prefix.append([alts[0], alts[1:], termhash])
        self.pos += 1
        return alts[0]

    def decide(self, e):
        """Truth value of Bool term e on this path; forks when both are feasible."""
        e = z3.simplify(e)
        if z3.is_true(e):
            return True
        if z3.is_false(e):
            return False
        h = e.hash()
        if self.pos < len(self.prefix):
            v = self._branch(None, h)
            self._add(e if v else z3.Not(e))
            self.model = None
            return v
        if self.depth_limit is not None and self.pos >= self.depth_limit:
            raise Cut()
        self._ensure_model()
        mv = self._eval(e) if self.model is not None else None
        if mv is None:
            ok_t, m_t = self._query(e)
            ok_f, m_f = self._query(z3.Not(e))
        elif mv:
            ok_t, m_t = True, self.model
            ok_f, m_f = self._query(z3.Not(e))
        else:
            ok_f, m_f = True, self.model
            ok_t, m_t = self._query(e)
        if ok_t and ok_f:
            v = self._branch([True, False], h)
        elif ok_t:
            v = self._branch([True], h)
        elif ok_f:
            v = self._branch([False], h)
        else:
            raise Infeasible()
        self._add(e if v else z3.Not(e))
        self.model = m_t if v else m_f
        return v

    def assume(self, cond):
        """Constrain the path.  Place before the code it constrains."""
        if isinstance(cond, bool):
            if not cond:
                raise Infeasible()
            return
        e = z3.simplify(self._px.as_bool_term(cond))
        if z3.is_true(e):
            return
        self._add(e)
        if self.pos < len(self.prefix):
            self.model = None
            return
        if self.model is not None and self._eval(e):
            return
        ok, m = self._query()
        if not ok:
            raise Infeasible()
        self.model = m

    # ------------------------------------------------------------------ oracle
    def check(self, cond, clause, detail='', **info):
        """Oracle assertion.  For a symbolic condition *validity* under the path condition is
        demanded: if `not cond` is satisfiable the path is a violation and the model is the
        counterexample."""
        if isinstance(cond, self._px.SBool):
            e = z3.simplify(cond.e)
            if z3.is_true(e):
                return
            if z3.is_false(e):
                bad = True
            else:
                ok, m = self._query(z3.Not(e))
                bad = ok
                if ok:
                    self._add(z3.Not(e))
                    self.model = m
        else:
            bad = not cond
        if bad:
            self._raise_violation(clause, info, detail)

    def fail(self, clause, detail='', **info):
        self._raise_violation(clause, info, detail)

    def _raise_violation(self, clause, info, detail):
        if self.known is not None:
            ent = self.known(clause, info)
            if ent is not None:
                raise KnownHit(ent, clause, info)
        raise Violation(clause, info, detail)

    def cover(self, tag):
        self.covers.add(tag)

    def note(self, *parts):
        # formatted lazily (z3 pretty-printing of proxies is expensive)
        self.trace.append(parts if len(parts) != 1 or not isinstance(parts[0], str) else parts[0])

    def trace_lines(self):
        return [t if isinstance(t, str) else ' '.join(str(p) for p in t) for t in self.trace]

    def done(self):
        """Final statement of every harness (reachability twin hooks in here)."""
        self.covers.add('end')
        if self.twin:
            raise TwinReached()

    # ------------------------------------------------------------------ models
    def assignment(self, grid=True):
        """A concrete assignment of all variables of this path satisfying the path condition.
        Real variables are first requested on the dyadic grid k/1024 so that a float replay is
        exact."""
        reals = [c for (_, c, k) in self.vars if k == 'r']
        model = None
        if reals and grid:
            # 1. the cached model may already be dyadic
            if self.model is not None and all(self._dyadic(self.model.eval(c, model_completion=True)) for c in reals):
                model = self.model
            else:
                # 2. ask for a grid model with a short, non-fatal time limit (mixed Int/Real query)
                extra = []
                for c in reals:
                    kx = z3.Int('grid!' + c.decl().name())
                    extra.append(z3.And(c * GRID == z3.ToReal(kx), kx >= -GRID_MAX, kx <= GRID_MAX))
                s = z3.Solver()
                s.set('timeout', 2000)
                s.add(*self.pc)
                s.add(*extra)
                t = time.perf_counter()
                r = s.check()
                self.solver_time += time.perf_counter() - t
                if r == z3.sat:
                    model = s.model()
        if model is None:
            if self.model is None:
                ok, m = self._query()
                if not ok:
                    raise Infeasible()
                self.model = m
            model = self.model
        out = {}
        for name, c, _ in self.vars:
            if name in self.choices:
                out[name] = self.choices[name]
                continue
            if model is None:
                v = {'b': False, 'i': 0, 'c': 0, 'r': Fraction(0)}[name[0]]
            else:
                v = _val_to_py(model.eval(c, model_completion=True))
            out[name] = v
        return out

    def assignment_scaled(self, base):
        """The assignment `base` with every real value multiplied by one big odd-ish factor so that the values
        become integers that are NOT exactly representable as floats.  Only returned when z3 confirms that
        the scaled point still satisfies the path condition (true for homogeneous constraint systems such
        as clock readings and waits).  Used as an extra replay flavour: code that silently rounds numbers
        through float() looks correct on dyadic values."""
        import math
        reals = [(name, c) for (name, c, k) in self.vars if k == 'r']
        if not reals or any(k not in 'birc' for (_, _, k) in self.vars):
            return None
        vals = [Fraction(base[name]) for name, _ in reals]
        den = 1
        for v in vals:
            den = den * v.denominator // math.gcd(den, v.denominator)
        scale = den * ((1 << 53) + 1)
        s = z3.Solver()
        s.set('timeout', 3000)
        s.add(*self.pc)
        out = dict(base)
        for (name, c), v in zip(reals, vals):
            sv = v * scale
            out[name] = sv
            s.add(c == z3.RealVal(sv.numerator) / z3.RealVal(sv.denominator))
        for name, c, k in self.vars:
            if k in 'bic' and name not in self.choices:
                val = base[name]
                s.add(c == (z3.BoolVal(val) if k == 'b' else z3.IntVal(val)))
        t = time.perf_counter()
        r = s.check()
        self.solver_time += time.perf_counter() - t
        return out if r == z3.sat else None

    @staticmethod
    def _dyadic(v):
        if z3.is_int_value(v):
            return True
        if not z3.is_rational_value(v):
            return False
        d = v.denominator_as_long()
        return d & (d - 1) == 0 and d <= (1 << 40) and abs(v.numerator_as_long()) < (1 << 52)

    def decisions(self):
        return [ent[0] for ent in self.prefix[:self.pos]]

    # ------------------------------------------------------------------ DFS
    def backtrack(self):
        while len(self.prefix) > self.n_forced:
            ent = self.prefix[-1]
            if ent[1]:
                ent[0] = ent[1].pop(0)
                return True
            self.prefix.pop()
        return False


class KnownHit(Control):
    def __init__(self, entry, clause, info):
        super().__init__(clause)
        self.entry = entry
        self.clause = clause
        self.info = info


class ConcreteSpace:
    """Replay space: hands out plain python values from a recorded assignment."""

    symbolic = False
    twin = False

    def __init__(self, assignment, real_as=float):
        self.values = dict(assignment)
        self.n = 0
        self.trace = []
        self.covers = set()
        self.real_as = real_as

    def _next(self, kind, label, default):
        name = '%s%d:%s' % (kind, self.n, label or '')
        self.n += 1
        if name not in self.values:
            # a variable the recorded path never created: the replay diverged
            self.trace.append('!! replay asks for unrecorded variable %s' % name)
            return default
        return self.values[name]

    def flag(self, label=''):
        return bool(self._next('b', label, False))

    def int(self, label='', lo=None, hi=None):
        return int(self._next('i', label, 0))

    def real(self, label='', lo=None, hi=None):
        v = self._next('r', label, Fraction(0))
        v = Fraction(v)
        if self.real_as is float:
            f = float(v)
            return f if Fraction(f) == v else v
        if self.real_as is int and v.denominator == 1:
            return int(v)
        return v

    def choose(self, n, label=''):
        return int(self._next('c', label, 0))

    def pick(self, seq, label=''):
        return seq[self.choose(len(seq), label)]

    def assume(self, cond):
        if not cond:
            raise Infeasible()

    def check(self, cond, clause, detail='', **info):
        if not cond:
            raise Violation(clause, info, detail)

    def fail(self, clause, detail='', **info):
        raise Violation(clause, info, detail)

    def cover(self, tag):
        self.covers.add(tag)

    def note(self, *parts):
        self.trace.append(' '.join(str(p) for p in parts))

    def trace_lines(self):
        return list(self.trace)

    def done(self):
        self.covers.add('end')
