"""C06 — type queries match exactly the subclasses, once each, for every class hierarchy.

Programs: per path n classes are created with `type()` below a fresh root class; the adjacency bits
`base[i][j]` (j < i) are solver flags, so the explorer enumerates every DAG on n nodes; classes with two
or more bases list them in ascending or descending index order (one more flag).  Base orders CPython
rejects (TypeError: no consistent MRO) end the path immediately with the cover tag `mro-rejected`.
Configuration: owned-type subset of entity 1 (one flag per class), at most one component on entity 2,
the query type.  The same for Processor subclasses below a fresh abstract-free Processor root.

Oracle: real inheritance (T in type(obj).__mro__; equal to issubclass except for virtual subclasses of ABCs,
which no query may match), through the public API only.
"""
import abc
import gc

import desper
from desper.logic.world import World

PROPERTY = 'C06'

NAMES = 'ABCDEF'
_paths = [0]


def _tick():
    """Dead dynamic classes sit in reference cycles and stay in `__subclasses__()` of their bases
    (object, desper.Processor) until collected."""
    _paths[0] += 1
    if _paths[0] % 300 == 0:
        gc.collect()


def build_hierarchy(sp, n, root, ns):
    """n classes below `root`; returns the list, or None if CPython rejects a base order."""
    adj = []
    multi = False
    for i in range(n):
        row = [j for j in range(i) if sp.flag('base[%s][%s]' % (NAMES[i], NAMES[j]))]
        adj.append(row)
        multi = multi or len(row) >= 2
    rev = bool(multi and sp.flag('bases-descending'))
    classes = []
    for i, row in enumerate(adj):
        order = sorted(row, reverse=rev)
        bases = tuple(classes[j] for j in order) or (root,)
        sp.note('class %s(%s)' % (NAMES[i], ', '.join(b.__name__ for b in bases)))
        try:
            classes.append(type(NAMES[i], bases, dict(ns)))
        except TypeError as ex:
            sp.note('  rejected by CPython: %s' % ex)
            sp.cover('mro-rejected')
            return None
    # shape tags (vacuity)
    if multi:
        sp.cover('multiple-inheritance')
    for t in classes:
        ups = [u for u in classes if u is not t and issubclass(t, u)]
        for u in ups:
            # more than one chain of direct-subclass links from u down to t
            if _count_chains(u, t) > 1:
                sp.cover('several-routes')
                direct = [b for b in t.__bases__ if b is u]
                if not direct:
                    sp.cover('diamond')
                else:
                    sp.cover('redundant-base')
    return classes


def _count_chains(u, t):
    if u is t:
        return 1
    return sum(_count_chains(s, t) for s in u.__subclasses__() if issubclass(t, s))


def late_class(sp, classes):
    """One more class, defined after queries already walked the hierarchy: bases are one existing class or an
    ordered pair of two.  Returns the class or None (CPython rejected the base order)."""
    n = len(classes)
    pairs = [(i, j) for i in range(n) for j in range(n) if i != j]
    k = sp.choose(n + len(pairs), 'late-bases')
    idx = (k,) if k < n else pairs[k - n]
    bases = tuple(classes[i] for i in idx)
    sp.note('class Late(%s)   # defined after the first queries' % ', '.join(b.__name__ for b in bases))
    try:
        late = type('Late', bases, {})
    except TypeError as ex:
        sp.note('  rejected by CPython: %s' % ex)
        sp.cover('late-mro-rejected')
        return None
    sp.cover('late-class')
    if len(bases) == 2:
        sp.cover('late-two-bases')
    return late


def first_queries(sp, qtypes):
    """Which types are queried before the late class exists: one of them, or all."""
    k = sp.choose(len(qtypes) + 1, 'first-query')
    pre = list(qtypes) if k == len(qtypes) else [qtypes[k]]
    sp.note('first queries by %s' % ', '.join(t.__name__ for t in pre))
    return pre


def is_subtype(t, T):
    """"type is T or a direct or indirect subclass of T": real inheritance (the MRO), not what an ABC's
    register()/__subclasshook__ makes issubclass() claim."""
    return T in t.__mro__


def virtual_abcs(sp, classes):
    """Two ABC query types outside the hierarchy: `Reg` with one class registered as a virtual subclass,
    `Hook` whose __subclasshook__ accepts every class that has a `marker` attribute in its MRO (the
    collections.abc.Sized pattern).  The same symbolically chosen class gets both."""
    k = sp.choose(len(classes), 'virtual-class')
    chosen = classes[k]

    def hook(cls, C):
        if any('marker' in B.__dict__ for B in C.__mro__):
            return True
        return NotImplemented

    Reg = abc.ABCMeta('Reg', (), {})
    Hook = abc.ABCMeta('Hook', (), {'__subclasshook__': classmethod(hook)})
    chosen.marker = True
    Reg.register(chosen)
    sp.note('%s (and its subclasses) is a virtual subclass of the ABCs Reg (register) and Hook (__subclasshook__)'
            % chosen.__name__)
    return [Reg, Hook]


# ------------------------------------------------------------------------------------------ components
def oracle_components(sp, w, ents, types, when):
    """ents: entity -> {exact type: component}."""
    for T in types:
        got = w.get(T)
        exp = [(e, c) for e, comps in ents.items() for t, c in comps.items() if is_subtype(t, T)]
        keys = [(e, id(c)) for e, c in got]
        sp.check(all(any(e == e2 and c is c2 for e2, c2 in exp) for e, c in got), 'get-only-matches',
                 '%s: get(%s) lists a pair that is not an attached component of a subtype' % (when, T.__name__))
        sp.check(len(set(keys)) == len(keys), 'get-once',
                 '%s: get(%s) reports a component more than once: %d pairs, %d distinct' % (
                     when, T.__name__, len(keys), len(set(keys))), query=T.__name__)
        sp.check(sorted(keys) == sorted((e, id(c)) for e, c in exp), 'get-all-matches',
                 '%s: get(%s) has %d pairs, %d components match' % (when, T.__name__, len(got), len(exp)))
        for e, comps in ents.items():
            matches = [c for t, c in comps.items() if is_subtype(t, T)]
            has = w.has_component(e, T)
            sp.check(has is bool(matches), 'has_component',
                     '%s: has_component(%r, %s) is %r, %d attached components match' % (
                         when, e, T.__name__, has, len(matches)))
            g = w.get_component(e, T)
            if not matches:
                sp.check(g is None, 'get_component-none',
                         '%s: get_component(%r, %s) returned %r, nothing matches' % (when, e, T.__name__, g))
            else:
                sp.check(any(g is c for c in matches), 'get_component-match',
                         '%s: get_component(%r, %s) returned %r, not an attached instance of a subtype' % (
                             when, e, T.__name__, g))
                if T in comps:
                    sp.check(g is comps[T], 'get_component-exact',
                             '%s: get_component(%r, %s) does not prefer the exact type' % (when, e, T.__name__))
    for e, comps in ents.items():
        got = w.get_components(e)
        sp.check(sorted(id(c) for c in got) == sorted(id(c) for c in comps.values()), 'attached-set',
                 '%s: entity %r owns %d components, model %d' % (when, e, len(got), len(comps)))


FLAVOURS = [
    ('plain', {}),
    ('falsy', {'__bool__': lambda self: False}),
    ('empty', {'__len__': lambda self: 0}),
    ('all-equal', {'__eq__': lambda self, other: True, '__hash__': lambda self: 1}),
    # the CLASSES are iterable (metaclass __iter__), like Enum classes; instances are plain
    ('iterable-class', {}),
]


def make_root(fname, fns, bases, meta_base, ns):
    """Fresh root class of a hierarchy.  Flavour 'iterable-class': its metaclass (inherited by every class
    created below it with type()) defines __iter__, as enum.EnumMeta does."""
    ns = dict(fns, **ns)
    if fname == 'iterable-class':
        meta = type('IterMeta', (meta_base,), {'__iter__': lambda cls: iter(())})
        return meta('Root', bases, ns)
    return type('Root', bases, ns)


def h_components(sp, n=4, query_root=False, second='any', flavours=1, late=False, virtual=False):
    _tick()
    fname, fns = FLAVOURS[sp.choose(flavours, 'flavour')] if flavours > 1 else FLAVOURS[0]
    if fname != 'plain':
        sp.cover('unusual-' + fname)
        sp.note('component instances are %s' % fname)
    root = make_root(fname, fns, (), type, {})
    classes = build_hierarchy(sp, n, root, {})
    if classes is None:
        sp.done()
        return
    w = World()
    ents = {1: {}, 2: {}}
    for T in classes:
        if sp.flag('owns[1,%s]' % T.__name__):
            c = T()
            w.add_component(1, c)
            ents[1][T] = c
            sp.note('add_component(1, %s())' % T.__name__)
    # entity 2: nothing, or one component of any class (second='any') / of the last class (second='last')
    if second == 'any':
        k = sp.choose(n + 1, 'second')
    else:
        k = n - 1 if sp.choose(2, 'second') else n
    if k < n:
        c = classes[k]()
        w.add_component(2, c)
        ents[2][classes[k]] = c
        sp.note('add_component(2, %s())' % classes[k].__name__)
    qtypes = classes + [root] if query_root else classes
    if virtual:
        qtypes = qtypes + virtual_abcs(sp, classes)
    if late:
        # phase 2: a class defined (and instantiated) after the hierarchy was already queried
        pre = first_queries(sp, qtypes)
        try:
            oracle_components(sp, w, ents, pre, 'before the late class')
        except Exception as ex:     # noqa
            sp.fail('op-raises', 'a query raised %r' % (ex,))
        Late = late_class(sp, classes)
        if Late is None:
            sp.done()
            return
        if any(issubclass(Late, t) for t in pre):
            sp.cover('late-under-queried')
        try:
            c = Late()
            w.add_component(1, c)
            ents[1][Late] = c
            sp.note('add_component(1, Late())')
            oracle_components(sp, w, ents, qtypes + [Late], 'after the late class')
        except Exception as ex:     # noqa
            sp.fail('op-raises', 'an operation after the late class raised %r' % (ex,))
        sp.done()
        return
    T = sp.pick(qtypes, 'query')
    sp.note('query type %s' % T.__name__)
    try:
        oracle_components(sp, w, ents, [T], 'before removal')
    except Exception as ex:     # noqa
        sp.fail('op-raises', 'a query by %s raised %r' % (T.__name__, ex))
    comps = ents[1]
    matches = [c for t, c in comps.items() if is_subtype(t, T)]
    if any(issubclass(t, T) and not is_subtype(t, T) for t in comps):
        sp.cover('virtual-subclass-queried')
    if len(matches) >= 2:
        sp.cover('several-match')
    if len(matches) >= 1 and T not in comps:
        sp.cover('only-subtypes-match')
    if T in comps and len(matches) >= 2:
        sp.cover('exact-among-several')
    sp.note('remove_component(1, %s)' % T.__name__)
    try:
        r = w.remove_component(1, T)
    except Exception as ex:     # noqa
        sp.fail('op-raises', 'remove_component(1, %s) raised %r' % (T.__name__, ex))
    if not matches:
        sp.check(r is None, 'remove-returns-none',
                 'remove_component(1, %s) returned %r, nothing matches' % (T.__name__, r))
    else:
        sp.check(any(r is c for c in matches), 'remove-returns-match',
                 'remove_component(1, %s) returned %r, not an attached instance of a subtype' % (T.__name__, r))
        if T in comps:
            sp.check(r is comps[T], 'remove-exact', 'remove_component(1, %s) does not prefer the exact type' % (
                T.__name__,))
        del comps[type(r)]
        sp.cover('removed')
    try:
        # exactly one object detached, everything else (also on the other entity) stays
        oracle_components(sp, w, ents, qtypes, 'after removal')
    except Exception as ex:     # noqa
        sp.fail('op-raises', 'a query after remove_component(1, %s) raised %r' % (T.__name__, ex))
    sp.done()


# ------------------------------------------------------------------------------------------ processors
def oracle_processors(sp, w, procs, order, types, when):
    """procs: exact type -> instance;  order: instances in the order `processors` listed them before."""
    got = w.processors
    sp.check(len(got) == len(order) and all(a is b for a, b in zip(got, order)), 'processors-set',
             '%s: processors lists %d objects, %d registered' % (when, len(got), len(order)))
    for T in types:
        matches = [p for t, p in procs.items() if issubclass(t, T)]
        g = w.get_processor(T)
        if not matches:
            sp.check(g is None, 'get_processor-none',
                     '%s: get_processor(%s) returned %r, nothing matches' % (when, T.__name__, g))
        else:
            sp.check(any(g is p for p in matches), 'get_processor-match',
                     '%s: get_processor(%s) returned %r, not a registered instance of a subtype' % (
                         when, T.__name__, g))
            if T in procs:
                sp.check(g is procs[T], 'get_processor-exact',
                         '%s: get_processor(%s) does not prefer the exact type' % (when, T.__name__))


def h_processors(sp, n=4, query_root=False, flavours=1, late=False, prios=False):
    _tick()
    fname, fns = FLAVOURS[sp.choose(flavours, 'flavour')] if flavours > 1 else FLAVOURS[0]
    if fname != 'plain':
        sp.cover('unusual-' + fname)
        sp.note('processor instances are %s' % fname)
    Root = make_root(fname, fns, (desper.Processor,), abc.ABCMeta, dict(process=lambda self, dt: None))
    classes = build_hierarchy(sp, n, Root, {})
    if classes is None:
        sp.done()
        return
    w = World()
    procs = {}
    for T in classes:
        if sp.flag('registered[%s]' % T.__name__):
            p = T()
            if prios:
                # any integer priority: bisect (and whatever else compares priorities) is decided by the solver,
                # so every order of the registered processors in `processors` is explored
                pr = sp.int('prio[%s]' % T.__name__)
                w.add_processor(p, priority=pr)
                sp.note('add_processor(%s(), priority=%s)' % (T.__name__, pr))
            else:
                w.add_processor(p)
                sp.note('add_processor(%s())' % T.__name__)
            procs[T] = p
    order = list(w.processors)
    sp.check(sorted(id(p) for p in order) == sorted(id(p) for p in procs.values()), 'processors-set',
             'processors lists %d objects, %d registered' % (len(order), len(procs)))
    qtypes = classes + [Root] if query_root else classes
    if late:
        pre = first_queries(sp, qtypes)
        try:
            oracle_processors(sp, w, procs, order, pre, 'before the late class')
        except Exception as ex:     # noqa
            sp.fail('op-raises', 'a query raised %r' % (ex,))
        Late = late_class(sp, classes)
        if Late is None:
            sp.done()
            return
        if any(issubclass(Late, t) for t in pre):
            sp.cover('late-under-queried')
        try:
            p = Late()
            w.add_processor(p)
            procs[Late] = p
            order.append(p)         # same default priority: goes after the older ones (C07)
            sp.note('add_processor(Late())')
            oracle_processors(sp, w, procs, order, qtypes + [Late], 'after the late class')
        except Exception as ex:     # noqa
            sp.fail('op-raises', 'an operation after the late class raised %r' % (ex,))
        sp.done()
        return
    T = sp.pick(qtypes, 'query')
    sp.note('query type %s' % T.__name__)
    try:
        oracle_processors(sp, w, procs, order, [T], 'before removal')
    except Exception as ex:     # noqa
        sp.fail('op-raises', 'get_processor(%s) raised %r' % (T.__name__, ex))
    matches = [p for t, p in procs.items() if issubclass(t, T)]
    if len(matches) >= 2:
        sp.cover('several-match')
    if len(matches) >= 1 and T not in procs:
        sp.cover('only-subtypes-match')
    if T in procs and len(matches) >= 2:
        sp.cover('exact-among-several')
        pos = [i for i, q in enumerate(order) if q is procs[T]]
        if pos and any(any(q is x for x in matches) for q in order[:pos[0]]):
            sp.cover('subclass-sorted-before-exact')
    sp.note('remove_processor(%s)' % T.__name__)
    try:
        r = w.remove_processor(T)
    except Exception as ex:     # noqa
        sp.fail('op-raises', 'remove_processor(%s) raised %r' % (T.__name__, ex))
    if not matches:
        sp.check(r is None, 'remove-returns-none',
                 'remove_processor(%s) returned %r, nothing matches' % (T.__name__, r))
    else:
        sp.check(any(r is p for p in matches), 'remove-returns-match',
                 'remove_processor(%s) returned %r, not a registered instance of a subtype' % (T.__name__, r))
        if T in procs:
            sp.check(r is procs[T], 'remove-exact', 'remove_processor(%s) does not prefer the exact type' % (
                T.__name__,))
        del procs[type(r)]
        order = [p for p in order if p is not r]
        sp.cover('removed')
    try:
        oracle_processors(sp, w, procs, order, qtypes, 'after removal')
    except Exception as ex:     # noqa
        sp.fail('op-raises', 'a query after remove_processor(%s) raised %r' % (T.__name__, ex))
    sp.done()


_TAGS = ['multiple-inheritance', 'several-routes', 'diamond', 'redundant-base', 'several-match',
         'only-subtypes-match', 'exact-among-several', 'removed', 'mro-rejected']
_UNUSUAL = ['unusual-falsy', 'unusual-empty', 'unusual-all-equal', 'unusual-iterable-class', 'removed']
_PRIOS = ['subclass-sorted-before-exact', 'exact-among-several', 'only-subtypes-match', 'removed']
_VIRTUAL = ['virtual-subclass-queried', 'removed', 'only-subtypes-match', 'multiple-inheritance']
_LATE = ['late-class', 'late-two-bases', 'late-under-queried', 'late-mro-rejected', 'multiple-inheritance']

HARNESSES = {
    'components': dict(fn=h_components, nontrivial=[t for t in _TAGS if t != 'mro-rejected'] + ['late-class'], required=_TAGS),
    'processors': dict(fn=h_processors, nontrivial=[t for t in _TAGS if t != 'mro-rejected'] + ['late-class'], required=_TAGS),
}

TIERS = {
    'quick': [
        ('components', dict(n=4)),
        ('components', dict(n=3, flavours=5), dict(required=_UNUSUAL)),
        ('processors', dict(n=4)),
        ('processors', dict(n=3, flavours=5), dict(required=_UNUSUAL)),
        ('processors', dict(n=3, prios=True), dict(required=_PRIOS)),
        ('components', dict(n=3, late=True), dict(required=_LATE)),
        ('components', dict(n=3, virtual=True), dict(required=_VIRTUAL)),
        ('processors', dict(n=3, late=True), dict(required=_LATE)),
    ],
    'thorough': [
        ('components', dict(n=5, second='last')),
        ('components', dict(n=4, query_root=True)),
        ('components', dict(n=4, flavours=5), dict(required=_UNUSUAL)),
        ('processors', dict(n=5)),
        ('processors', dict(n=4, query_root=True)),
        ('processors', dict(n=4, flavours=5), dict(required=_UNUSUAL)),
        ('processors', dict(n=4, prios=True), dict(required=_PRIOS)),
        ('components', dict(n=4, late=True, second='last'), dict(required=_LATE)),
        ('components', dict(n=3, late=True, query_root=True, flavours=4), dict(required=_LATE + _UNUSUAL[:3])),
        ('processors', dict(n=4, late=True), dict(required=_LATE)),
        ('components', dict(n=4, virtual=True, second='last'), dict(required=_VIRTUAL)),
    ],
}
BUDGET_S = {'quick': 120, 'thorough': 1500}

EXPLANATION = (
    'Program enumeration by symbolic execution: every path creates a fresh class hierarchy with type() whose '
    'base-class adjacency bits, base order, owned-type subset and query type are solver variables, drives the '
    'real desper.World (add_component/add_processor, the six type queries, one removal) and compares every '
    'result with an issubclass-based oracle.  z3 decides every branch; the explorer visits every feasible path, '
    'i.e. every DAG on n nodes that CPython accepts, with every subset and query type, and certifies none was '
    'skipped.  The domain is finite: the solver contributes branch feasibility and the exhaustiveness '
    'certificate.')
RULE = ('one evaluation = one feasible path = one (hierarchy, base order, owned subset, second-entity component, '
        'query type) tuple; non-trivial = the hierarchy has multiple inheritance / several routes to a class, or '
        'the query matched through subtypes, or an object was removed; paths whose hierarchy CPython rejects '
        '(tag mro-rejected) are counted but trivial')
BOUNDS = {
    'quick': 'n=4 classes below a fresh root: all 64 DAGs x 2 base orders, 16 owned subsets on entity 1, '
             '0-1 component on entity 2, 4 query types; n=3 with falsy / empty / all-equal instances and with iterable classes; n=3 processors with symbolic integer priorities; the same for Processor subclasses (16 registered subsets); '
             'n=3 hierarchies + one class defined after a first round of queries (by one type or by all), 9 base choices, '
             'then every query by every type including the late class; n=3 hierarchies + two ABC query types (register / '
             '__subclasshook__) that claim a symbolically chosen class as virtual subclass',
    'thorough': 'n=5 classes: all 1024 DAGs x 2 base orders, 32 subsets, entity 2 empty or owning the last class, '
                '5 query types; '
                'n=4 additionally queried by the root class; n=4 with unusual instances; the same for Processor '
                'subclasses; late-class phase on n=4 (16 base choices) and on n=3 with root query and unusual instances; '
                'virtual-subclass ABC query types on n=4; n=4 processors with symbolic integer priorities; iterable classes on n=4',
}
ASSUMPTIONS = [
    'classes are created with type() and stay alive for the whole path; __subclasses__() is not overridden',
    'bases are listed in ascending or in descending creation order (the same for all classes of one hierarchy); '
    'orders CPython rejects are not hierarchies "Python accepts" and are skipped (tag mro-rejected)',
    'at most one component per exact type per entity, each attached once (replacement is C01)',
    'component and processor objects may be falsy (__bool__ False / __len__ 0) or compare equal to everything '
    '(__eq__ always True, constant __hash__): identity is what counts',
    'late phase: a class may be defined (one or two existing bases, either order) and instantiated after queries '
    'have already walked the hierarchy; every query afterwards must see it ("for every hierarchy" is read as the '
    'hierarchy at the time of the query)',
    'when several objects match and none has exactly the queried type, any matching object is accepted',
    '"subclass" means real inheritance: a class that an ABC accepts through register() or __subclasshook__ is not '
    'a subclass in the sense of the statement, so a query by such an ABC matches nothing - and all six queries '
    'must agree on that',
    'components and processors are plain (no event handlers; callbacks are C02/C07)',
    'processors are added with their class default priority 0, except in the `prios` entries where every '
    'processor gets an explicit unbounded symbolic integer priority (so a subclass instance may sort before, '
    'after or level with the exact-type one); `processors` is read after the adds and only the membership and '
    'the relative order of the survivors are checked here (ordering is C07)',
    'flavour iterable-class: the classes themselves are iterable (metaclass __iter__, the Enum pattern); they '
    'are still ordinary types for every query',
]
OUTSIDE = ['hierarchies with more than 5 classes below the root', 'base orders other than ascending/descending',
           'virtual subclasses among Processor classes (components only)',
           'classes collected while a world still refers to them']

TECHNIQUE = 'symbolic enumeration of class DAGs (adjacency bits as solver variables) executed on the real World, issubclass oracle'
