"""Shared harness: lifecycle callbacks that re-enter the World at one point (used by C02 and C04).

One component instance per path is *armed*: the first time its on_add (or on_remove, a solver choice) runs it
performs one action whose expected effect is unambiguous because it concerns either the dispatch switch or a
bystander entity (id 9) no top-level operation touches:

    0  world.dispatch_enabled = False          (every later callback of the running operation must be postponed)
    1  world.add_component(9, Hd())            (creates 9, or replaces its Hd: old on_remove + new on_add)
    2  world.delete_entity(9, immediate=True)
    3  world.remove_component(9, Hd)

Top-level operations act on entity 1 only (plus disabling / enabling dispatching, so that the armed callback
itself may be postponed and fire - and disable again - in the middle of a release).  The statement fixes no order between the callbacks of one operation,
so the oracle is: every callback observes `dispatch_enabled` True when it starts (nothing runs while disabled);
whenever dispatching is enabled and the operation has returned, the multiset of callbacks delivered so far
equals the multiset the model expects (each exactly once, real owner and world); while disabled the delivered
ones are a sub-multiset; `is_handler`, `get_components` and `entity_exists` agree with the model for both
entities after every operation.
"""
import desper
from desper.logic.world import World

LOG = []            # (instance, event, entity, world, dispatch_enabled at entry)
ARMED = {}          # 'inst', 'event', 'action', 'fired'
BY = 9


def _maybe_fire(self, event, world):
    if ARMED.get('inst') is self and ARMED['event'] == event and not ARMED['fired']:
        ARMED['fired'] = True
        a = ARMED['action']
        if a == 0:
            world.dispatch_enabled = False
        elif a == 1:
            c = Hd()
            ARMED['new'] = c
            world.add_component(BY, c)
        elif a == 2:
            world.delete_entity(BY, immediate=True)
        elif a == 3:
            ARMED['removed'] = world.remove_component(BY, Hd)


@desper.event_handler('on_add', 'on_remove')
class Hd:
    def on_add(self, entity, world):
        LOG.append((self, 'on_add', entity, world, world.dispatch_enabled))
        _maybe_fire(self, 'on_add', world)

    def on_remove(self, entity, world):
        LOG.append((self, 'on_remove', entity, world, world.dispatch_enabled))
        _maybe_fire(self, 'on_remove', world)


class Hs(Hd):
    pass


class Ht(Hd):
    pass


class N:
    """not a handler"""


SETS = [[Hd], [Hd, Hs], [Hs, Hd], [Hd, N, Hs], [Hs, Ht, Hd], [N]]


def key(t):
    return (id(t[0]), t[1], repr(t[2]), id(t[3]))


def describe(t):
    return '%s#%x.%s(%r)' % (type(t[0]).__name__, id(t[0]) & 0xfff, t[1], t[2])


def h_reenter(sp, L=2, actions=4, bystander=True, build=True):
    del LOG[:]
    ARMED.clear()
    w = World()
    ents = {}               # id -> {type: inst}        (model)
    dead = set()
    expected = []           # every callback that must have been delivered once dispatching is enabled again
    instances = []
    enabled = True

    def attach(e, inst):
        comps = ents.setdefault(e, {})
        old = comps.get(type(inst))
        if old is not None:
            detach(e, old)
        ents.setdefault(e, {})[type(inst)] = inst
        if isinstance(inst, Hd):
            expected.append((inst, 'on_add', e, w))

    def detach(e, inst):
        del ents[e][type(inst)]
        if not ents[e]:
            del ents[e]
        if isinstance(inst, Hd):
            expected.append((inst, 'on_remove', e, w))

    def new(T):
        c = T()
        instances.append(c)
        return c

    # ---- initial state, built through the public API
    if bystander and sp.flag('bystander'):
        c = new(Hd)
        w.create_entity(c, entity_id=BY)
        attach(BY, c)
        sp.note('create_entity(Hd, entity_id=9)')
    if build:
        k = sp.choose(len(SETS) + 1, 'build')
        if k < len(SETS):
            comps = [new(T) for T in SETS[k]]
            w.create_entity(*comps, entity_id=1)
            for c in comps:
                attach(1, c)
            sp.note('create_entity(%s, entity_id=1)' % ', '.join(T.__name__ for T in SETS[k]))
    action = sp.choose(actions, 'action')
    if action in (2, 3) and BY not in ents:
        sp.assume(False)
    ev = 'on_add' if sp.flag('armed-on-add') else 'on_remove'
    ARMED.update(event=ev, action=action, fired=False, inst=None)
    arm_existing = [c for c in instances if isinstance(c, Hd) and any(c is x for x in ents.get(1, {}).values())]
    if ev == 'on_remove' and arm_existing and sp.flag('arm-existing'):
        ARMED['inst'] = sp.pick(arm_existing, 'arm-which')
    sp.note('armed: %s of %s performs action %d' % (
        ev, 'an existing component' if ARMED['inst'] is not None else 'the first new component', action))

    def maybe_arm(c):
        if ARMED['inst'] is None and isinstance(c, Hd) and sp.flag('arm-new'):
            ARMED['inst'] = c
            sp.note('  (armed: %s#%x)' % (type(c).__name__, id(c) & 0xfff))

    def apply_fired():
        """the armed callback ran during the last operation: apply the action to the model"""
        nonlocal enabled
        sp.cover('action-%d-fired' % action)
        if action == 0:
            enabled = False
        elif action == 1:
            c = ARMED['new']
            instances.append(c)
            attach(BY, c)
        elif action == 2:
            for c in list(ents.get(BY, {}).values()):
                detach(BY, c)
            dead.discard(BY)
        elif action == 3:
            old = ents.get(BY, {}).get(Hd)
            sp.check(ARMED.get('removed') is old, 'remove-returns',
                     'remove_component(9, Hd) from inside a callback returned %r, model %r' % (ARMED.get('removed'), old))
            if old is not None:
                detach(BY, old)

    def oracle(when):
        for t in LOG:
            sp.check(t[4] is True, 'callback-while-disabled',
                     '%s: %s ran while dispatch_enabled was False' % (when, describe(t)))
        got = sorted(key(t) for t in LOG)
        exp = sorted(key(t) for t in expected)
        if enabled:
            sp.check(got == exp, 'callbacks',
                     '%s: delivered {%s}, expected {%s}' % (when, ', '.join(describe(t) for t in LOG),
                                                            ', '.join(describe(t) for t in expected)))
        else:
            rest = list(exp)
            ok = True
            for k_ in got:
                if k_ in rest:
                    rest.remove(k_)
                else:
                    ok = False
            sp.check(ok, 'callbacks', '%s (disabled): delivered {%s} is not part of expected {%s}' % (
                when, ', '.join(describe(t) for t in LOG), ', '.join(describe(t) for t in expected)))
            if rest:
                sp.cover('postponed-by-callback' if ARMED['fired'] and action == 0 else 'postponed')
        sp.check(w.dispatch_enabled is enabled, 'switch-state',
                 '%s: dispatch_enabled is %r, model %r' % (when, w.dispatch_enabled, enabled))
        for e in (1, BY):
            comps = ents.get(e, {})
            try:
                real = list(w.get_components(e))
            except KeyError:
                real = []
            sp.check(len(real) == len(comps) and all(any(r is c for c in comps.values()) for r in real),
                     'components', '%s: get_components(%r) = %r, model %r' % (when, e, real, list(comps.values())))
            sp.check(w.entity_exists(e) is (e in ents and e not in dead), 'entity_exists',
                     '%s: entity_exists(%r) is %r' % (when, e, w.entity_exists(e)))
        att = [c for comps in ents.values() for c in comps.values()]
        for c in instances:
            if isinstance(c, Hd):
                is_att = any(c is a for a in att)
                sp.check(w.is_handler(c) is is_att, 'is_handler', '%s: is_handler(%s#%x) is %r, attached %r' % (
                    when, type(c).__name__, id(c) & 0xfff, w.is_handler(c), is_att))

    oracle('after build')
    for step in range(L):
        op = sp.choose(8, 'op%d' % step)
        when = 'step %d' % step
        fired_before = ARMED['fired']
        try:
            if op == 0:
                ts = sp.pick(SETS, 'set%d' % step)
                comps = [new(T) for T in ts]
                for c in comps:
                    maybe_arm(c)
                sp.note('create_entity(%s, entity_id=1)' % ', '.join(T.__name__ for T in ts))
                if len([c for c in comps if isinstance(c, Hd)]) > 1:
                    sp.cover('multi-create')
                w.create_entity(*comps, entity_id=1)
                for c in comps:
                    attach(1, c)
            elif op == 1:
                T = sp.pick([Hd, Hs, N], 't%d' % step)
                c = new(T)
                maybe_arm(c)
                sp.note('add_component(1, %s)' % T.__name__)
                if T in ents.get(1, {}):
                    sp.cover('replace')
                w.add_component(1, c)
                attach(1, c)
            elif op == 2:
                T = sp.pick([Hd, Hs, N], 't%d' % step)
                sp.note('remove_component(1, %s)' % T.__name__)
                matches = [c for t, c in ents.get(1, {}).items() if issubclass(t, T)]
                r = w.remove_component(1, T)
                if matches:
                    sp.check(any(r is c for c in matches), 'remove-returns', 'remove_component returned %r' % (r,))
                    detach(1, r)
                    if len(matches) > 1:
                        sp.cover('remove-one-of-two')
                else:
                    sp.check(r is None, 'remove-returns', 'remove_component returned %r, nothing matches' % (r,))
            elif op == 3:
                if 1 not in ents:
                    sp.assume(False)
                sp.note('delete_entity(1, immediate=True)')
                if len([c for c in ents[1].values() if isinstance(c, Hd)]) > 1:
                    sp.cover('multi-delete-immediate')
                w.delete_entity(1, immediate=True)
                for c in list(ents[1].values()):
                    detach(1, c)
                dead.discard(1)
            elif op == 4:
                if 1 not in ents or 1 in dead:
                    sp.assume(False)
                sp.note('delete_entity(1)')
                w.delete_entity(1)
                dead.add(1)
            elif op == 5:
                sp.note('process()')
                if 1 in dead and 1 in ents:
                    if len([c for c in ents[1].values() if isinstance(c, Hd)]) > 1:
                        sp.cover('multi-delete-at-process')
                    for c in list(ents[1].values()):
                        detach(1, c)
                w.process()
                dead.clear()
            elif op == 6:
                if enabled:
                    sp.assume(False)
                sp.note('dispatch_enabled = True')
                w.dispatch_enabled = True
                enabled = True
            elif op == 7:
                if not enabled:
                    sp.assume(False)
                sp.note('dispatch_enabled = False')
                w.dispatch_enabled = False
                enabled = False
        except Exception as ex:     # noqa
            import traceback
            sp.fail('op-raises', '%s: operation raised %r at %s' % (
                when, ex, traceback.extract_tb(ex.__traceback__)[-1][:3]))
        if ARMED['fired'] and not fired_before:
            apply_fired()
        oracle(when)
    for _ in range(2):      # the armed callback may itself have been postponed and disable again during the release
        if enabled:
            break
        fired_before = ARMED['fired']
        try:
            w.dispatch_enabled = True
        except Exception as ex:     # noqa
            sp.fail('op-raises', 'final enable raised %r' % (ex,))
        enabled = True
        sp.note('dispatch_enabled = True (final)')
        if ARMED['fired'] and not fired_before:
            sp.cover('armed-callback-was-postponed')
            apply_fired()
        oracle('final enable')
    sp.check(enabled, 'switch-state', 'dispatching still disabled after two enabling assignments')
    sp.done()
