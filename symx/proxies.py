"""Symbolic proxies: SBool, SInt (an `int` subclass), SReal (fraction-free pair of Real terms),
SAngle (opaque angle as a point on the unit circle)."""
from __future__ import annotations

from fractions import Fraction

import z3

ONE = z3.RealVal(1)
S = z3.simplify
POISON = 0x5EED0BAD5EED0BAD


class ProxyMisuse(TypeError):
    """A symbolic value was about to be read concretely (would make the run unfaithful)."""


class SBool:
    __slots__ = ('sp', 'e')

    def __init__(self, sp, e):
        self.sp, self.e = sp, e

    def __bool__(self):
        return self.sp.decide(self.e)

    def __and__(self, o):
        return SBool(self.sp, z3.And(self.e, as_bool_term(o)))

    __rand__ = __and__

    def __or__(self, o):
        return SBool(self.sp, z3.Or(self.e, as_bool_term(o)))

    __ror__ = __or__

    def __invert__(self):
        return SBool(self.sp, z3.Not(self.e))

    def implies(self, o):
        return SBool(self.sp, z3.Implies(self.e, as_bool_term(o)))

    def __hash__(self):
        raise ProxyMisuse('hash of SBool')

    def __repr__(self):
        return 'SBool(%s)' % self.e


def as_bool_term(c):
    if isinstance(c, SBool):
        return c.e
    if isinstance(c, bool):
        return z3.BoolVal(c)
    raise TypeError('not a boolean condition: %r' % (c,))


def all_of(sp, conds):
    conds = list(conds)
    if all(isinstance(c, bool) for c in conds):
        return all(conds)
    return SBool(sp, z3.And(*[as_bool_term(c) for c in conds]))


def any_of(sp, conds):
    conds = list(conds)
    if all(isinstance(c, bool) for c in conds):
        return any(conds)
    return SBool(sp, z3.Or(*[as_bool_term(c) for c in conds]))


# ---------------------------------------------------------------------------------- ints
def _int_term(v):
    if isinstance(v, SInt):
        return v.e
    if isinstance(v, bool):
        return z3.IntVal(int(v))
    if isinstance(v, int):
        return z3.IntVal(v)
    return None


class SInt(int):
    """Symbolic mathematical integer.  Subclasses int (desper asserts isinstance(priority, int));
    the C-level payload is a poison value, never meant to be read."""

    def __new__(cls, sp, e):
        o = int.__new__(cls, POISON)
        o.sp, o.e = sp, e
        return o

    def _bin(self, o, f, rev=False):
        if isinstance(o, (SReal, float, Fraction)):
            me = SReal(self.sp, z3.ToReal(self.e))
            return f(o, me) if rev else f(me, o)
        t = _int_term(o)
        if t is None:
            return NotImplemented
        return SInt(self.sp, S(f(t, self.e) if rev else f(self.e, t)))

    def _cmp(self, o, f):
        if isinstance(o, (SReal, float, Fraction)):
            return f(SReal(self.sp, z3.ToReal(self.e)), o)
        t = _int_term(o)
        if t is None:
            return NotImplemented
        return SBool(self.sp, S(f(self.e, t)))

    def __add__(s, o):
        return s._bin(o, lambda a, b: a + b)

    def __radd__(s, o):
        return s._bin(o, lambda a, b: a + b, True)

    def __sub__(s, o):
        return s._bin(o, lambda a, b: a - b)

    def __rsub__(s, o):
        return s._bin(o, lambda a, b: a - b, True)

    def __mul__(s, o):
        return s._bin(o, lambda a, b: a * b)

    def __rmul__(s, o):
        return s._bin(o, lambda a, b: a * b, True)

    def __floordiv__(s, o):
        if not (isinstance(o, int) and not isinstance(o, SInt) and o > 0):
            raise ProxyMisuse('SInt // non-constant')
        return SInt(s.sp, S(s.e / z3.IntVal(o)))      # z3 Int div: floor for positive divisor

    def __mod__(s, o):
        if not (isinstance(o, int) and not isinstance(o, SInt) and o > 0):
            raise ProxyMisuse('SInt % non-constant')
        return SInt(s.sp, S(s.e % z3.IntVal(o)))

    def __neg__(s):
        return SInt(s.sp, S(-s.e))

    def __pos__(s):
        return s

    def __abs__(s):
        return SInt(s.sp, S(z3.If(s.e >= 0, s.e, -s.e)))

    def __lt__(s, o):
        return s._cmp(o, lambda a, b: a < b)

    def __le__(s, o):
        return s._cmp(o, lambda a, b: a <= b)

    def __gt__(s, o):
        return s._cmp(o, lambda a, b: a > b)

    def __ge__(s, o):
        return s._cmp(o, lambda a, b: a >= b)

    def __eq__(s, o):
        r = s._cmp(o, lambda a, b: a == b)
        return False if r is NotImplemented else r

    def __ne__(s, o):
        r = s._cmp(o, lambda a, b: a != b)
        return True if r is NotImplemented else r

    def __bool__(s):
        return s.sp.decide(s.e != 0)

    def __hash__(s):
        raise ProxyMisuse('hash of SInt')

    def __index__(s):
        raise ProxyMisuse('index of SInt')

    def __int__(s):
        raise ProxyMisuse('int() of SInt')

    def __float__(s):
        raise ProxyMisuse('float() of SInt')

    def __repr__(s):
        return 'SInt(%s)' % s.e

    __str__ = __repr__

    def __format__(s, spec):
        return repr(s)

    def __reduce__(s):
        raise ProxyMisuse('pickle of SInt')


# ---------------------------------------------------------------------------------- reals
def _real_pair(v):
    """(numerator term, denominator term) of a number, or None."""
    if isinstance(v, SReal):
        return v.n, v.d
    if isinstance(v, SInt):
        return z3.ToReal(v.e), ONE
    if isinstance(v, bool):
        return z3.RealVal(int(v)), ONE
    if isinstance(v, int):
        return z3.RealVal(v), ONE
    if isinstance(v, float):
        if v != v or v in (float('inf'), float('-inf')):
            raise ProxyMisuse('non-finite float meets SReal')
        f = Fraction(v)
        return z3.RealVal(f.numerator), z3.RealVal(f.denominator)
    if isinstance(v, Fraction):
        return z3.RealVal(v.numerator), z3.RealVal(v.denominator)
    return None


_INF = float('inf')


class SReal:
    """Symbolic real number n/d with z3 Real terms n, d (d != 0 on the path).
    + - * never introduce division; / forks on a zero divisor exactly like Python."""
    __slots__ = ('sp', 'n', 'd')

    def __init__(self, sp, n, d=ONE):
        self.sp, self.n, self.d = sp, n, d

    # -- arithmetic
    def _add(s, o, sign):
        r = _real_pair(o)
        if r is None:
            return NotImplemented
        n2, d2 = r
        if sign < 0:
            n2 = -n2
        if s.d.eq(d2):
            return SReal(s.sp, S(s.n + n2), s.d)
        if d2.eq(ONE):
            return SReal(s.sp, S(s.n + n2 * s.d), s.d)
        if s.d.eq(ONE):
            return SReal(s.sp, S(s.n * d2 + n2), d2)
        return SReal(s.sp, S(s.n * d2 + n2 * s.d), S(s.d * d2))

    def __add__(s, o):
        return s._add(o, 1)

    __radd__ = __add__

    def __sub__(s, o):
        return s._add(o, -1)

    def __rsub__(s, o):
        return (-s)._add(o, 1)

    def __neg__(s):
        return SReal(s.sp, S(-s.n), s.d)

    def __pos__(s):
        return s

    def __mul__(s, o):
        r = _real_pair(o)
        if r is None:
            return NotImplemented
        return SReal(s.sp, S(s.n * r[0]), S(s.d * r[1]))

    __rmul__ = __mul__

    def _div(s, n1, d1, n2, d2):
        if s.sp.decide(S(n2 == 0)):
            raise ZeroDivisionError('division by zero')
        return SReal(s.sp, S(n1 * d2), S(d1 * n2))

    def __truediv__(s, o):
        r = _real_pair(o)
        if r is None:
            return NotImplemented
        return s._div(s.n, s.d, r[0], r[1])

    def __rtruediv__(s, o):
        r = _real_pair(o)
        if r is None:
            return NotImplemented
        return s._div(r[0], r[1], s.n, s.d)

    def __pow__(s, k):
        if not (isinstance(k, int) and not isinstance(k, SInt) and k >= 0):
            raise ProxyMisuse('SReal ** non-constant')
        r = SReal(s.sp, ONE)
        for _ in range(k):
            r = r * s
        return r

    def __abs__(s):
        if s.d.eq(ONE):
            return SReal(s.sp, S(z3.If(s.n >= 0, s.n, -s.n)))
        return SReal(s.sp, S(z3.If(s.n * s.d >= 0, s.n, -s.n)), s.d)

    def __mod__(s, m):
        """Python float semantics for a positive constant modulus: result in [0, m)."""
        if isinstance(m, (SReal, SInt)) or not isinstance(m, (int, float)) or not m > 0:
            raise ProxyMisuse('SReal % non-constant')
        if not s.d.eq(ONE):
            raise ProxyMisuse('SReal % on a fraction')
        mn, md = _real_pair(m)
        q = s.sp._fresh(z3.IntSort(), 'q', 'mod')
        r = s.sp._fresh(z3.RealSort(), 'm', 'mod')
        s.sp._add(z3.And(s.n * md == mn * z3.ToReal(q) + r * md, r >= 0, r * md < mn))
        s.sp.model = None
        return SReal(s.sp, r)

    # -- comparisons
    def _cmp(s, o, f):
        if isinstance(o, float) and o in (_INF, -_INF):
            # every real is strictly between the infinities: the comparison is a constant, exactly as for floats
            return SBool(s.sp, z3.BoolVal(bool(f(0, 1 if o > 0 else -1))))
        r = _real_pair(o)
        if r is None:
            return NotImplemented
        n2, d2 = r
        if s.d.eq(d2) and s.d.eq(ONE):
            return SBool(s.sp, S(f(s.n, n2)))
        diff = s.n * d2 - n2 * s.d
        dd = s.d * d2
        return SBool(s.sp, S(f(diff * dd, 0)))

    def __lt__(s, o):
        return s._cmp(o, lambda a, b: a < b)

    def __le__(s, o):
        return s._cmp(o, lambda a, b: a <= b)

    def __gt__(s, o):
        return s._cmp(o, lambda a, b: a > b)

    def __ge__(s, o):
        return s._cmp(o, lambda a, b: a >= b)

    def __eq__(s, o):
        if isinstance(o, float) and o in (_INF, -_INF):
            return False
        r = _real_pair(o)
        if r is None:
            return False
        return SBool(s.sp, S(s.n * r[1] == r[0] * s.d))

    def __ne__(s, o):
        if isinstance(o, float) and o in (_INF, -_INF):
            return True
        r = _real_pair(o)
        if r is None:
            return True
        return SBool(s.sp, S(s.n * r[1] != r[0] * s.d))

    def __bool__(s):
        return s.sp.decide(S(s.n != 0))

    def __hash__(s):
        raise ProxyMisuse('hash of SReal')

    def __float__(s):
        raise ProxyMisuse('float() of SReal')

    def __index__(s):
        raise ProxyMisuse('index of SReal')

    def __int__(s):
        raise ProxyMisuse('int() of SReal')

    def __round__(s, nd=None):
        raise ProxyMisuse('round() of SReal')

    def __repr__(s):
        if s.d.eq(ONE):
            return 'SReal(%s)' % s.n
        return 'SReal(%s / %s)' % (s.n, s.d)

    __str__ = __repr__

    def __format__(s, spec):
        return repr(s)


def is_symbolic(v):
    return isinstance(v, (SBool, SInt, SReal))


def eq(sp, a, b):
    """Equality as a condition (SBool or bool), for oracle use."""
    r = (a == b)
    return r


# ---------------------------------------------------------------------------------- sqrt / angles
def sym_sqrt(sp, a):
    """Witness encoding of math.sqrt on reals: r >= 0 and r*r == a; ValueError for a < 0."""
    pr = _real_pair(a)
    if pr is None:
        raise TypeError(a)
    n, d = pr
    if not isinstance(a, SReal):
        a = SReal(sp, n, d)
    if sp.decide(S(n * d < 0)):
        raise ValueError('math domain error')
    r = sp._fresh(z3.RealSort(), 's', 'sqrt')
    sp._add(z3.And(r >= 0, r * r * d == n))
    sp.model = None
    return SReal(sp, r)


class SAngle:
    """Opaque angle theta represented by (cos theta, sin theta) on the unit circle."""
    __slots__ = ('sp', 'c', 's')

    def __init__(self, sp, c, s):
        self.sp, self.c, self.s = sp, c, s

    @staticmethod
    def fresh(sp, label='angle'):
        c = SReal(sp, sp._fresh(z3.RealSort(), 'r', label + '.cos'))
        s = SReal(sp, sp._fresh(z3.RealSort(), 'r', label + '.sin'))
        sp._add(c.n * c.n + s.n * s.n == 1)
        sp.model = None
        return SAngle(sp, c, s)

    def __add__(self, o):
        if not isinstance(o, SAngle):
            return NotImplemented
        return SAngle(self.sp, self.c * o.c - self.s * o.s, self.s * o.c + self.c * o.s)

    __radd__ = __add__

    def __neg__(self):
        return SAngle(self.sp, self.c, -self.s)

    def __sub__(self, o):
        return self + (-o)


def sym_cos(a):
    if not isinstance(a, SAngle):
        raise ProxyMisuse('cos of non-angle %r' % (a,))
    return a.c


def sym_sin(a):
    if not isinstance(a, SAngle):
        raise ProxyMisuse('sin of non-angle %r' % (a,))
    return a.s


def sym_atan2(sp, y, x):
    r = sym_sqrt(sp, x * x + y * y)
    if r == 0:
        return SAngle(sp, SReal(sp, ONE), SReal(sp, z3.RealVal(0)))
    return SAngle(sp, x / r, y / r)
