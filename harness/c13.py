"""C13 — World switching delivers in/out events to the worlds that run.

A real `desper.SimpleLoop` runs a frame script of R switch requests followed by Quit.  Every request has a
symbolic target handle (possibly the current one), clear_current, clear_next, an origin (script processor,
on_update callback of a handler component dispatched by desper.OnUpdateProcessor, coroutine run by
desper.CoroutineProcessor) and a method (`desper.switch(...)` or a raw `raise desper.SwitchWorld(...)`).
Handles are configured when first referenced: kind (a real desper.WorldHandle whose load() leaves the world
muted with pending on_add/on_world_load, or a plain desper.Handle returning an enabled world) and whether the
harness has already cached it.  All observations go through handler components / processors that log
(world instance, event, args); the oracle is a small model of "which handle is cached, which instance is
current, which instances are away".
"""
import itertools

import desper

PROPERTY = 'C13'


class HarnessOverrun(RuntimeError):
    """Harness guard: the frame script did not finish within the frame budget."""


class Inst:
    """Observation record of one world instance."""

    def __init__(self, ctx, world, hidx, kind):
        self.world = world
        self.hidx = hidx
        self.kind = kind
        self.no = len(ctx.insts)
        self.log = []               # (seq, event, args)
        self.away = False           # left through desper.switch() and not entered again
        self.held = []              # ping serials dispatched to it while away

    def __repr__(self):
        return 'h%d#%d' % (self.hidx, self.no)


@desper.event_handler('on_add', 'on_world_load', 'on_switch_in', 'on_switch_out', 'on_update', 'ping')
class Ev:
    def __init__(self, ctx, inst):
        self.ctx = ctx
        self.inst = inst

    def on_add(self, entity, world):
        self.ctx.deliver(self.inst, 'on_add', (entity, world))

    def on_world_load(self, handle, world):
        self.ctx.deliver(self.inst, 'on_world_load', (handle, world))

    def on_switch_in(self, from_, to):
        self.ctx.deliver(self.inst, 'on_switch_in', (from_, to))

    def on_switch_out(self, from_, to):
        self.ctx.deliver(self.inst, 'on_switch_out', (from_, to))

    def ping(self, serial):
        self.ctx.deliver(self.inst, 'ping', (serial,))

    def on_update(self, dt):
        ctx = self.ctx
        ctx.deliver(self.inst, 'on_update', (dt,))
        ctx.touch(self.inst, 'on_update callback')
        if ctx.next_req is not None and ctx.next_req.origin == 'on_update':
            ctx.fire(self.inst)


class Pre(desper.Processor):
    def __init__(self, ctx, inst):
        self.ctx, self.inst = ctx, inst

    def process(self, dt):
        self.ctx.frame_start(self.inst)


class ScriptP(desper.Processor):
    def __init__(self, ctx, inst):
        self.ctx, self.inst = ctx, inst

    def process(self, dt):
        ctx = self.ctx
        ctx.touch(self.inst, 'script processor')
        if ctx.next_req is not None and ctx.next_req.origin == 'processor':
            ctx.fire(self.inst)
        if ctx.next_req is None and ctx.pos >= ctx.R:
            ctx.settle()
            ctx.quit_asked = True
            ctx.sp.note('frame %d: %r raises Quit' % (ctx.frames, self.inst))
            raise desper.Quit()


class Post(desper.Processor):
    def __init__(self, ctx, inst):
        self.ctx, self.inst = ctx, inst

    def process(self, dt):
        self.ctx.touch(self.inst, 'last processor')


def coroutine_body(ctx, inst):
    ctx.touch(inst, 'coroutine')
    if ctx.next_req is not None and ctx.next_req.origin == 'coroutine':
        ctx.fire(inst)
    yield


class LoadBoom(OSError):
    """Scripted one-off failure of a handle's load()."""


def build(ctx, hidx, kind, world):
    ctx.maybe_fault(hidx)
    inst = Inst(ctx, world, hidx, kind)
    ctx.insts.append(inst)
    ctx.loads[hidx] += 1
    ctx.sp.note('      load() of h%d -> %r (%s)' % (hidx, inst, kind))
    world.add_processor(Pre(ctx, inst), -10)
    world.add_processor(desper.OnUpdateProcessor())
    world.add_processor(desper.CoroutineProcessor(), 1)
    world.add_processor(ScriptP(ctx, inst), 2)
    world.add_processor(Post(ctx, inst), 3)
    world.create_entity(Ev(ctx, inst))
    return inst


class MutedKindHandle(desper.WorldHandle):
    """The real WorldHandle.load: World(), dispatch disabled, transform functions, on_world_load."""

    def __init__(self, ctx, hidx):
        super().__init__()
        self.transform_functions.append(lambda handle, world: build(ctx, hidx, 'muted', world))


class BoolFalseWorld(desper.World):
    """A perfectly good world that happens to be falsy."""

    def __bool__(self):
        return False


class LenZeroWorld(desper.World):
    """Falsy through __len__ (e.g. 'number of game objects', none yet)."""

    def __len__(self):
        return 0


WORLD_CLASSES = {None: desper.World, 'bool': BoolFalseWorld, 'len': LenZeroWorld}


class FalsyMutedKindHandle(desper.WorldHandle):
    """WorldHandle.load step by step (it hard-codes World()), producing a falsy World subclass."""

    def __init__(self, ctx, hidx):
        super().__init__()
        self.ctx = ctx
        self.transform_functions.append(lambda handle, world: build(ctx, hidx, 'muted', world))

    def load(self):
        world = WORLD_CLASSES[self.ctx.falsy]()
        world.dispatch_enabled = False
        for transform_function in self.transform_functions:
            transform_function(self, world)
        world.dispatch(desper.ON_WORLD_LOAD_EVENT_NAME, self, world)
        return world


class PlainKindHandle(desper.Handle):
    def __init__(self, ctx, hidx):
        self.ctx, self.hidx = ctx, hidx

    def load(self):
        world = WORLD_CLASSES[self.ctx.falsy]()
        build(self.ctx, self.hidx, 'plain', world)
        return world


class Req:
    pass


class Ctx:
    def __init__(self, sp, R, n_handles, origins, methods, kinds, precache, omit=False, nondefault=False):
        self.sp = sp
        self.R = R
        self.n = n_handles
        self.origins, self.methods, self.kinds, self.precache = origins, methods, kinds, precache
        self.nondefault = nondefault    # the loop that runs is NOT desper.default_loop
        self.idle_h = None              # script handle the idle default loop is seated on (if any)
        self.callstyle = False          # switch() calls on the default loop are spelled in five equivalent ways
        self.loadfault = False          # opt-in flavour: one load() raises once, the request is retried
        self.fault_countdown = None
        self.fault_exc = None
        self.fault_used = False
        self.falsy = None               # None | 'bool' | 'len': the worlds are instances of a falsy World subclass
        self.omit = omit            # clear flags are three-valued: omitted / False / True
        self.handles = [None] * n_handles
        self.loads = [0] * n_handles            # observed load() calls
        self.mcount = [0] * n_handles           # model: expected load() calls
        self.mcached = [False] * n_handles      # model: handle holds an instance
        self.minst = [None] * n_handles         # model: that instance (Inst)
        self.cleared = [[] for _ in range(n_handles)]   # model: instances dropped by a clear flag
        self.insts = []
        self.seq = itertools.count()
        self.pos = 0                # requests fired so far
        self.next_req = None
        self.last_req = None
        self.cur_h = None
        self.cur_inst = None
        self.fired = False          # a request was issued in the current frame
        self.entering = False       # a request was issued, next frame start must verify who runs
        self.coro_started = False
        self.frames = 0
        self.quit_asked = False
        self.ping_serial = itertools.count(1)
        self.loop = None

    # ------------------------------------------------------------------ helpers
    def inst_of(self, world):
        for i in self.insts:
            if i.world is world:
                return i
        return None

    def wname(self, world):
        i = self.inst_of(world)
        return repr(i) if i is not None else repr(world)

    def make_handle(self, j, first=False):
        """Configure handle j at its first reference (kind, already cached by the harness or not)."""
        sp = self.sp
        kind = sp.pick(self.kinds, 'kind[h%d]' % j)
        if kind == 'muted':
            h = FalsyMutedKindHandle(self, j) if self.falsy else MutedKindHandle(self, j)
        else:
            h = PlainKindHandle(self, j)
        self.handles[j] = h
        pre = False
        if not first and self.precache:
            pre = bool(sp.flag('precached[h%d]' % j))
        sp.note('   handle h%d: kind %s%s' % (j, kind, ', loaded beforehand by the caller' if pre else ''))
        if pre:
            w = h()
            self.mcount[j] = 1
            self.mcached[j] = True
            self.minst[j] = self.inst_of(w)
            sp.cover('precached-' + kind)
        return h

    # ------------------------------------------------------------------ load fault flavour (opt-in)
    def maybe_fault(self, hidx):
        if self.fault_countdown:
            self.fault_countdown -= 1
            if self.fault_countdown == 0:
                self.fault_countdown = None
                self.fault_exc = LoadBoom('load() of h%d failed once' % hidx)
                self.sp.note('      load() of h%d raises %r' % (hidx, self.fault_exc))
                raise self.fault_exc

    def recover(self):
        """A load() failed while request last_req was carried out and the exception left start().  What the loop
        and the handles look like now is not specified: adopt it from the public API, then retry the request."""
        sp = self.sp
        r = self.last_req
        for i, h in enumerate(self.handles):
            if h is not None:
                self.mcached[i] = h.cached
                self.minst[i] = self.inst_of(h()) if h.cached else None
                self.mcount[i] = self.loads[i]
        self.cur_inst = self.inst_of(self.loop.current_world)
        self.cur_h = [i for i, h in enumerate(self.handles) if h is self.loop.current_world_handle][0]
        for inst in self.insts:
            if inst is self.cur_inst or (r.expect is not None and inst is r.expect) or inst is r.W:
                inst.away = not inst.world.dispatch_enabled and inst is not self.cur_inst
        if r.expect is not None and r.held:
            r.expect.held = r.held + r.expect.held
        sp.note('--- start() raised the load error; state now: current %r of h%d, cached %s; the request is retried'
                % (self.cur_inst, self.cur_h, [bool(c) for c in self.mcached]))
        sp.cover('load-fault-retry')
        if self.cur_inst is not None and not self.mcached[self.cur_inst.hidx]:
            sp.cover('load-fault-current-uncached')
        self.next_req = r
        self.last_req = None
        self.pos -= 1
        self.fired = False
        self.entering = False
        self.coro_started = False
        self.fault_exc = None

    # ------------------------------------------------------------------ observation
    def deliver(self, inst, event, args):
        if inst.away:
            self.sp.fail('left-world-delivers',
                         'world %r was left through switch() and not entered again, but its handler received '
                         '%s%r' % (inst, event, tuple(self.wname(a) if isinstance(a, desper.World) else a
                                                      for a in args)))
        inst.log.append((next(self.seq), event, args))
        if event != 'on_update':
            self.sp.note('      %r hears %s(%s)' % (inst, event, ', '.join(
                self.wname(a) if isinstance(a, desper.World) else type(a).__name__ if isinstance(a, desper.Handle)
                else repr(a) for a in args)))

    def touch(self, inst, what):
        if self.fired:
            self.sp.fail('frame-not-abandoned', 'frame %d: %s of %r ran after the switch request of the same '
                         'frame' % (self.frames, what, inst))
        if self.quit_asked:
            self.sp.fail('runs-after-quit', '%s of %r ran after Quit' % (what, inst))

    # ------------------------------------------------------------------ frames
    def frame_start(self, inst):
        sp = self.sp
        if self.quit_asked:
            sp.fail('loop-does-not-stop', 'a frame started after Quit')
        self.frames += 1
        if self.frames > 2 * (self.R + 1) + 2 + (4 if self.loadfault else 0):
            raise HarnessOverrun('frame %d' % self.frames)
        if self.entering:
            self.verify_entered(inst)
        else:
            sp.check(inst is self.cur_inst, 'processes-current-world',
                     'frame %d: %r is processed, current should be %r' % (self.frames, inst, self.cur_inst))
        self.fired = False
        self.fault_countdown = None
        sp.note('frame %d: %r is processed' % (self.frames, inst))
        for a in self.insts:
            if a.away:
                s = next(self.ping_serial)
                a.held.append(s)
                a.world.dispatch('ping', s)
        if self.next_req is None and self.pos < self.R:
            self.draw_request()
        r = self.next_req
        if r is not None and r.origin == 'coroutine' and not self.coro_started:
            self.coro_started = True
            inst.world.get_processor(desper.CoroutineProcessor).start(coroutine_body(self, inst))

    def draw_request(self):
        sp = self.sp
        k = self.pos
        r = Req()
        r.j = sp.choose(self.n, 'target[%d]' % k)
        if self.omit:
            # None = the argument is not passed at all (must behave exactly like False)
            r.cc_arg = sp.pick([None, False, True], 'clear_current[%d]' % k)
            r.cn_arg = sp.pick([None, False, True], 'clear_next[%d]' % k)
        else:
            r.cc_arg = bool(sp.flag('clear_current[%d]' % k))
            r.cn_arg = bool(sp.flag('clear_next[%d]' % k))
        r.cc = r.cc_arg is True
        r.cn = r.cn_arg is True
        r.kw = {}
        if r.cc_arg is not None:
            r.kw['clear_current'] = r.cc_arg
        if r.cn_arg is not None:
            r.kw['clear_next'] = r.cn_arg
        r.origin = sp.pick(self.origins, 'origin[%d]' % k)
        r.method = sp.pick(self.methods, 'method[%d]' % k)
        r.style = None
        if self.callstyle and r.method == 'switch':
            # how the caller spells the call on the default loop; all five mean the same
            r.style = sp.pick(['default', 'from_world', 'from_none', 'positional', 'positional_from_none'],
                              'callstyle[%d]' % k)
        if self.handles[r.j] is None:
            self.make_handle(r.j)
        self.next_req = r

    # ------------------------------------------------------------------ a request is issued
    def fire(self, inst):
        sp = self.sp
        r = self.next_req
        self.settle()
        c, j = self.cur_h, r.j
        W = self.cur_inst
        h = self.handles[j]
        r.W = W
        r.E = None
        r.seq = next(self.seq)
        r.frame = self.frames
        sp.note('frame %d: request %d from %s of %r: %s(h%d%s)' % (
            self.frames, self.pos, r.origin, inst, 'switch' if r.method == 'switch' else 'raise SwitchWorld',
            j, ''.join(', %s=%s' % kv for kv in sorted(r.kw.items()))))
        if r.cc_arg is None:
            sp.cover('flag-omitted-clear_current')
        if r.cn_arg is None:
            sp.cover('flag-omitted-clear_next')
        if len(r.kw) < 2:
            sp.cover('flag-omitted')
        # ---- model
        r.target_cleared = (r.cn and self.mcached[j]) or (r.cc and j == c)
        if r.cc:
            if self.minst[c] is not None:
                self.cleared[c].append(self.minst[c])
            self.mcached[c] = False
            self.minst[c] = None
        if r.cn:
            if self.minst[j] is not None:
                self.cleared[j].append(self.minst[j])
            self.mcached[j] = False
            self.minst[j] = None
        if self.mcached[j]:
            r.expect = self.minst[j]
        else:
            r.expect = None             # a fresh instance
            self.mcount[j] += 1
            self.mcached[j] = True
        r.known_before = list(self.insts)
        r.self_same = r.expect is W
        r.held = []
        if r.expect is not None and r.expect.away:
            r.expect.away = False
            r.held, r.expect.held = r.expect.held, []
        self.cur_h = j
        # ---- covers
        sp.cover('origin-' + r.origin)
        sp.cover('method-' + r.method)
        if r.method == 'switch':
            if r.cn:
                sp.cover('switch-clear_next' + ('-cached' if r.target_cleared else '-uncached'))
            if r.cc:
                sp.cover('switch-clear_current')
            if j == c:
                sp.cover('switch-self' + ('-cleared' if r.target_cleared else ''))
            if r.held:
                sp.cover('reenter-held')
        elif r.cn or r.cc:
            sp.cover('raw-clear')
        if self.falsy and r.method == 'switch':
            sp.cover('falsy-world-left')
        if self.nondefault and r.method == 'switch':
            sp.cover('nondefault-loop')
            if j == c and r.cc:
                sp.cover('nondefault-self-switch-clear')
            if self.idle_h == j:
                sp.cover('idle-default-on-target' + ('' if j == c else '-other'))
        # ---- bookkeeping
        self.fired = True
        self.entering = True
        self.next_req = None
        self.last_req = r
        self.pos += 1
        self.coro_started = False
        if self.loadfault and not self.fault_used:
            k = sp.choose(3, 'load-fault[%d]' % (self.pos - 1))
            if k:
                self.fault_used = True
                self.fault_countdown = k
                sp.note('      (the load() number %d from now on will fail once)' % k)
        # ---- the call
        if r.method == 'raw':
            raise desper.SwitchWorld(h, **r.kw)
        try:
            if r.style is not None:
                sp.cover('callstyle-' + r.style)
                sp.note('      (spelled: %s)' % r.style)
                if r.style == 'default':
                    desper.switch(h, **r.kw)
                elif r.style == 'from_world':
                    desper.switch(h, from_world=inst.world, **r.kw)
                elif r.style == 'from_none':
                    # the documented default written out: "use the default loop's current world"
                    desper.switch(h, from_world=None, **r.kw)
                elif r.style == 'positional':
                    desper.switch(h, r.cc, r.cn)
                else:
                    desper.switch(h, r.cc, r.cn, None)
            elif r.origin == 'processor' or self.nondefault:
                desper.switch(h, from_world=inst.world, **r.kw)
            else:
                desper.switch(h, **r.kw)
        finally:
            if not r.self_same:
                W.away = True
        sp.fail('switch-returns', 'desper.switch() returned instead of raising SwitchWorld')

    def verify_entered(self, inst):
        sp = self.sp
        r = self.last_req
        self.entering = False
        h = self.handles[r.j]
        where = 'frame %d (after request %d)' % (self.frames, self.pos - 1)
        sp.check(h.cached, 'target-handle-cached', '%s: target handle h%d holds no world' % (where, r.j))
        E = h()
        sp.check(inst.world is E, 'next-iteration-processes-target',
                 '%s: %r is processed, but handle h%d holds %s' % (where, inst, r.j, self.wname(E)))
        sp.check(self.loop.current_world is E, 'loop-current-world', where)
        sp.check(self.loop.current_world_handle is h, 'loop-current-handle', where)
        if r.expect is None:
            sp.check(all(inst is not k for k in r.known_before), 'fresh-instance',
                     '%s: %r existed before the request; a fresh instance of h%d was due' % (where, inst, r.j))
            sp.cover('entered-fresh-' + inst.kind)
        else:
            sp.check(inst is r.expect, 'cached-instance',
                     '%s: %r runs, the cached instance %r of h%d was due' % (where, inst, r.expect, r.j))
        for i, hh in enumerate(self.handles):
            if hh is not None:
                sp.check(self.loads[i] == self.mcount[i], 'load-count',
                         '%s: handle h%d was loaded %d times, expected %d (1 + clears that applied)' % (
                             where, i, self.loads[i], self.mcount[i]))
        r.E = inst
        self.cur_inst = inst
        self.minst[r.j] = inst

    # ------------------------------------------------------------------ events of the last request
    def settle(self):
        sp = self.sp
        r = self.last_req
        if r is None or r.method != 'switch' or r.E is None:
            return
        self.last_req = None
        W, E = r.W, r.E
        what = 'request %d, switch(h%d, clear_current=%s, clear_next=%s) from %r' % (
            self.pos - 1, r.j, r.cc, r.cn, W)
        for inst in self.insts:
            win = [(s, ev, a) for (s, ev, a) in inst.log if s > r.seq]
            outs = [a for (s, ev, a) in win if ev == 'on_switch_out']
            ins = [(s, a) for (s, ev, a) in win if ev == 'on_switch_in']
            sp.check(len(outs) == (1 if inst is W else 0), 'switch-out-once',
                     '%s: %r heard on_switch_out %d times (left: %r)' % (what, inst, len(outs), W))
            sp.check(len(ins) == (1 if inst is E else 0), 'switch-in-once',
                     '%s: %r heard on_switch_in %d times (the instance that runs is %r)' % (
                         what, inst, len(ins), E))
            if inst is W:
                f, t = outs[0]
                sp.check(f is W.world, 'switch-out-args', '%s: on_switch_out from=%s' % (what, self.wname(f)))
                if not r.target_cleared:
                    sp.check(t is E.world, 'switch-out-args', '%s: on_switch_out to=%s, entered %r' % (
                        what, self.wname(t), E))
            if inst is E:
                s_in, (f, t) = ins[0]
                sp.check(f is W.world and t is E.world, 'switch-in-args',
                         '%s: on_switch_in(from=%s, to=%s), expected (%r, %r)' % (
                             what, self.wname(f), self.wname(t), W, E))
                before = [ev for (s, ev, a) in inst.log if s < s_in]
                after = [ev for (s, ev, a) in inst.log if s > s_in]
                sp.check('on_add' not in after and 'on_world_load' not in after, 'load-callbacks-first',
                         '%s: %r heard a load-time callback after on_switch_in' % (what, E))
                need = ['on_add'] + (['on_world_load'] if inst.kind == 'muted' else [])
                sp.check(all(ev in before for ev in need), 'load-callbacks-first',
                         '%s: %r heard on_switch_in before its own %s' % (what, E, '/'.join(need)))
                if r.held:
                    got = [a[0] for (s, ev, a) in win if ev == 'ping']
                    sp.check(sorted(got) == sorted(r.held), 'held-events-released',
                             '%s: %r held events %r while away, after re-entry it heard %r' % (
                                 what, E, r.held, got))


class BareLoop(desper.Loop):
    def loop(self):
        raise desper.Quit()


class CountingHandle(desper.Handle):
    n = 0

    def load(self):
        self.n += 1
        return desper.World()


def base_loop_defaults(sp):
    """Loop.switch of the base class with the clear flags omitted keeps the cached instances."""
    bl = BareLoop()
    ha, hb = CountingHandle(), CountingHandle()
    wa, wb = ha(), hb()
    bl.switch(ha)
    bl.switch(hb)
    bl.switch(hb)
    sp.check(ha.n == 1 and hb.n == 1 and ha.cached and ha() is wa and bl.current_world is wb
             and bl.current_world_handle is hb, 'base-switch-keeps-instance',
             'Loop.switch(handle) without clear flags: handles loaded %d and %d times' % (ha.n, hb.n))


def h_switch(sp, R=2, n_handles=2, origins=('processor', 'on_update', 'coroutine'), methods=('switch', 'raw'),
             kinds=('muted', 'plain'), precache=True, omit=False, nondefault=False, falsy=False, loadfault=False,
             callstyle=False):
    ctx = Ctx(sp, R, n_handles, list(origins), list(methods), list(kinds), precache, omit, nondefault)
    ctx.loadfault = loadfault
    ctx.callstyle = callstyle and not nondefault
    if falsy:
        ctx.falsy = sp.pick(['bool', 'len'], 'falsy-world-class')
        sp.note('   all worlds are instances of %s (falsy)' % WORLD_CLASSES[ctx.falsy].__name__)
    base_loop_defaults(sp)
    loop = desper.SimpleLoop(time_function=itertools.count().__next__)
    ctx.loop = loop
    saved = desper.default_loop
    idle = None
    if nondefault:
        # the global default loop is another, idle SimpleLoop; every switch() passes from_world= explicitly,
        # which is all the public API asks of the user of a custom loop
        idle = desper.SimpleLoop()
        desper.default_loop = idle
    else:
        desper.default_loop = loop
    try:
        h0 = ctx.make_handle(0, first=True)
        loop.switch(h0)
        ctx.mcount[0] = 1
        ctx.mcached[0] = True
        ctx.cur_h = 0
        ctx.cur_inst = ctx.inst_of(loop.current_world)
        ctx.minst[0] = ctx.cur_inst
        sp.check(ctx.cur_inst is not None and ctx.loads[0] == 1, 'initial-switch', 'loop.switch(h0)')
        # seat it a second time, flags omitted: neither the current nor the next handle (both h0) may be cleared
        loop.switch(h0)
        sp.check(ctx.loads[0] == 1 and loop.current_world is ctx.cur_inst.world and h0.cached
                 and h0() is ctx.cur_inst.world, 'direct-switch-keeps-instance',
                 'loop.switch(h0) without clear flags on the seated handle: h0 loaded %d times' % ctx.loads[0])
        sp.cover('flag-omitted-direct')
        if nondefault:
            seat = sp.pick(['none', 'own', 'script'], 'idle-default-loop')
            if seat == 'own':
                idle.switch(CountingHandle())
                sp.note('   desper.default_loop is an idle SimpleLoop seated on a world of its own')
            elif seat == 'script':
                k = sp.choose(n_handles, 'idle-handle')
                if ctx.handles[k] is None:
                    ctx.make_handle(k)
                idle.switch(ctx.handles[k])
                if not ctx.mcached[k]:
                    ctx.mcount[k] += 1
                    ctx.mcached[k] = True
                    ctx.minst[k] = ctx.inst_of(idle.current_world)
                sp.check(idle.current_world is ctx.minst[k].world and ctx.loads[k] == ctx.mcount[k], 'idle-seat',
                         'seating the idle default loop on h%d' % k)
                ctx.idle_h = k
                sp.note('   desper.default_loop is an idle SimpleLoop seated on h%d (%r)' % (k, ctx.minst[k]))
            else:
                sp.note('   desper.default_loop is an idle SimpleLoop without a world')
        while True:
            try:
                loop.start()
            except HarnessOverrun:
                raise
            except Exception as ex:         # noqa
                if ctx.fault_exc is not None and ex is ctx.fault_exc:
                    ctx.recover()
                    continue
                sp.fail('op-raises', 'loop.start() raised %r' % (ex,))
            break
        sp.check(ctx.quit_asked, 'start-returns-early', 'start() returned before the script reached Quit')
        sp.check(loop.current_world is ctx.cur_inst.world and loop.current_world_handle is ctx.handles[ctx.cur_h],
                 'final-current-world', 'after Quit')
        # what the handles yield now: the retained instance, or a fresh one after a clear
        for i, h in enumerate(ctx.handles):
            if h is None:
                continue
            if ctx.mcached[i]:
                sp.check(h.cached and h() is ctx.minst[i].world, 'handle-keeps-instance',
                         'after Quit: h%d no longer yields %r although no clear applied to it' % (i, ctx.minst[i]))
            else:
                w = h()
                sp.check(all(w is not x.world for x in ctx.cleared[i]), 'cleared-handle-yields-fresh',
                         'after Quit: h%d was cleared by a switch but still yields %s' % (i, ctx.wname(w)))
                sp.cover('left-handle-cleared')
    finally:
        desper.default_loop = saved
    sp.done()


ALL_TAGS = ['origin-processor', 'origin-on_update', 'origin-coroutine', 'method-switch', 'method-raw',
            'switch-clear_next-cached', 'switch-clear_next-uncached', 'switch-clear_current', 'switch-self',
            'switch-self-cleared', 'reenter-held', 'raw-clear', 'left-handle-cleared', 'entered-fresh-muted', 'entered-fresh-plain',
            'precached-muted', 'precached-plain', 'flag-omitted-direct']
STYLE_TAGS = ['callstyle-default', 'callstyle-from_world', 'callstyle-from_none', 'callstyle-positional',
              'callstyle-positional_from_none']
ND_TAGS = ['nondefault-loop', 'nondefault-self-switch-clear', 'idle-default-on-target', 'idle-default-on-target-other']
OMIT_TAGS = ['flag-omitted', 'flag-omitted-clear_current', 'flag-omitted-clear_next']

HARNESSES = {
    'switch': dict(fn=h_switch, nontrivial=[t for t in ALL_TAGS if t.startswith(('switch-', 'reenter', 'raw-clear'))],
                   required=ALL_TAGS),
    'switch1': dict(fn=h_switch, nontrivial=[t for t in ALL_TAGS if t.startswith(('switch-', 'raw-clear'))],
                    required=[t for t in ALL_TAGS if t != 'reenter-held']),
    'switch1-omit': dict(fn=h_switch, nontrivial=[t for t in ALL_TAGS if t.startswith(('switch-', 'raw-clear'))],
                         required=[t for t in ALL_TAGS if t != 'reenter-held'] + OMIT_TAGS),
    'switch-proc-omit': dict(fn=h_switch,
                             nontrivial=[t for t in ALL_TAGS if t.startswith(('switch-', 'reenter', 'raw-clear'))],
                             required=[t for t in ALL_TAGS if t not in ('origin-on_update', 'origin-coroutine')]
                             + OMIT_TAGS),
    'switch1-nd': dict(fn=h_switch, nontrivial=[t for t in ALL_TAGS if t.startswith(('switch-', 'raw-clear'))] + ND_TAGS,
                       required=[t for t in ALL_TAGS if t != 'reenter-held'] + ND_TAGS),
    'switch-proc-nd': dict(fn=h_switch,
                           nontrivial=[t for t in ALL_TAGS if t.startswith(('switch-', 'reenter', 'raw-clear'))] + ND_TAGS,
                           required=[t for t in ALL_TAGS if t not in ('origin-on_update', 'origin-coroutine')]
                           + ND_TAGS),
    'switch1-style': dict(fn=h_switch, nontrivial=[t for t in ALL_TAGS if t.startswith(('switch-', 'raw-clear'))],
                          required=[t for t in ALL_TAGS if t != 'reenter-held'] + STYLE_TAGS),
    'switch-proc-style': dict(fn=h_switch,
                              nontrivial=[t for t in ALL_TAGS if t.startswith(('switch-', 'reenter', 'raw-clear'))],
                              required=[t for t in ALL_TAGS if t not in ('origin-on_update', 'origin-coroutine')]
                              + STYLE_TAGS),
    'switch1-falsy': dict(fn=h_switch, nontrivial=[t for t in ALL_TAGS if t.startswith(('switch-', 'raw-clear'))],
                          required=[t for t in ALL_TAGS if t != 'reenter-held'] + ['falsy-world-left']),
    'switch-proc-falsy': dict(fn=h_switch,
                              nontrivial=[t for t in ALL_TAGS if t.startswith(('switch-', 'reenter', 'raw-clear'))],
                              required=[t for t in ALL_TAGS if t not in ('origin-on_update', 'origin-coroutine')]
                              + ['falsy-world-left']),
    # opt-in, NOT in TIERS (see ASSUMPTIONS): a load() fails once while a request is carried out, start() is
    # called again and the request retried
    'switch-loadfault': dict(fn=h_switch, nontrivial=['load-fault-retry'],
                             required=['load-fault-retry', 'load-fault-current-uncached']),
    'switch-proc': dict(fn=h_switch,
                        nontrivial=[t for t in ALL_TAGS if t.startswith(('switch-', 'reenter', 'raw-clear'))],
                        required=[t for t in ALL_TAGS if t not in ('origin-on_update', 'origin-coroutine')]),
    'switch-proc-np': dict(fn=h_switch,
                           nontrivial=[t for t in ALL_TAGS if t.startswith(('switch-', 'reenter', 'raw-clear'))],
                           required=[t for t in ALL_TAGS if t not in ('origin-on_update', 'origin-coroutine',
                                                                      'precached-muted', 'precached-plain')]),
    'switch-only': dict(fn=h_switch,
                        nontrivial=[t for t in ALL_TAGS if t.startswith(('switch-', 'reenter'))],
                        required=[t for t in ALL_TAGS if t not in ('origin-on_update', 'origin-coroutine',
                                                                   'method-raw', 'raw-clear')]),
}

TIERS = {
    'quick': [
        ('switch', dict(R=2, n_handles=2)),
        ('switch1', dict(R=1, n_handles=2)),
        ('switch1-omit', dict(R=1, n_handles=2, omit=True)),
        ('switch1-nd', dict(R=1, n_handles=2, nondefault=True)),
        ('switch1-falsy', dict(R=1, n_handles=2, falsy=True)),
        ('switch1-style', dict(R=1, n_handles=2, callstyle=True)),
    ],
    'thorough': [
        ('switch', dict(R=2, n_handles=3)),
        ('switch1', dict(R=1, n_handles=3)),
        ('switch-proc', dict(R=3, n_handles=2, origins=('processor',))),
        ('switch-only', dict(R=3, n_handles=3, origins=('processor',), methods=('switch',))),
        ('switch-proc-np', dict(R=3, n_handles=3, origins=('processor',), precache=False)),
        ('switch1-omit', dict(R=1, n_handles=3, omit=True)),
        ('switch-proc-omit', dict(R=2, n_handles=2, origins=('processor',), omit=True)),
        ('switch1-nd', dict(R=1, n_handles=3, nondefault=True)),
        ('switch-proc-nd', dict(R=2, n_handles=2, origins=('processor',), nondefault=True)),
        ('switch1-falsy', dict(R=1, n_handles=3, falsy=True)),
        ('switch-proc-falsy', dict(R=2, n_handles=2, origins=('processor',), falsy=True)),
        ('switch1-style', dict(R=1, n_handles=3, callstyle=True)),
        ('switch-proc-style', dict(R=2, n_handles=2, origins=('processor',), callstyle=True)),
    ],
}
BUDGET_S = {'quick': 120, 'thorough': 1500}

EXPLANATION = (
    'Bounded symbolic execution of the real desper.switch / SwitchWorld / Loop.switch / SimpleLoop.loop / '
    'Handle.__call__ / WorldHandle.load: a SimpleLoop runs a script of R switch requests and a final Quit.  '
    'Target handle, clear_current, clear_next, origin of the request (processor, on_update callback, coroutine), '
    'method (switch() or raw SwitchWorld), kind of every handle (real WorldHandle.load with muted world and pending '
    'on_add/on_world_load, or plain enabled world) and "already cached" are solver variables; the explorer visits '
    'every combination.  Handler components and processors log every delivery per world instance; a model of '
    '(cached instance per handle, current instance, instances that are away) predicts which instance must run '
    'next, how often each handle was loaded, and - for switch() - where on_switch_out / on_switch_in must be heard, '
    'in which order relative to the load-time callbacks, and that worlds that were left stay silent (events '
    'dispatched to them in the meantime are held and released at re-entry).')
RULE = ('one evaluation = one feasible path = one complete frame script with its handle configuration; non-trivial '
        '= the script used a clear flag, switched to the current handle, or re-entered a world that held events')
BOUNDS = {
    'quick': '2 handles, scripts of exactly 1 and 2 requests (all origins, both methods, both clear flags, both '
             'handle kinds, cached or not); 1 request with three-valued clear flags (omitted / False / True); 1 request on a loop that is not '
             'desper.default_loop (idle default loop: no world / own world / seated on a script handle); 1 request with falsy World subclasses; 1 request with five spellings of the switch() call',
    'thorough': '3 handles x 1 and 2 requests (everything); 2 handles x 3 requests issued from processors; 3 handles '
                'x 3 requests, switch() from processors; 3 handles x 3 requests from processors, both methods, no '
                'handle cached beforehand; three-valued clear flags: 3 handles x 1 request, 2 handles x 2 requests '
                'from processors; non-default loop, falsy World subclasses and call spellings: 3 handles x 1 request, 2 handles x 2 requests from '
                'processors each',
}
ASSUMPTIONS = [
    'a clear flag that is not passed at all (to desper.switch, SwitchWorld or Loop.switch) must behave exactly like '
    'False: the cached instance is kept and nothing is loaded again (omit=True entries make every flag three-valued; '
    'every path also seats the initial world twice through loop.switch(h0) and drives a bare Loop subclass)',
    'raw `raise SwitchWorld(...)` bypasses the events: no on_switch_in/out expectations and the world that was left '
    'is not expected to be silent; only frame abandonment, target, freshness and load counts are checked',
    'the `to` argument of on_switch_out is not checked when a clear flag replaces the target instance '
    '(clear_next on a cached handle, or clear_current on a switch to the current handle)',
    'on_switch_in / release of held events are checked by the time the entered world issues its own next request '
    'or quits (not necessarily before its first process call)',
    'release of events held by a world that was left through switch() is demanded only when it is re-entered through '
    'switch(); re-entry through a raw SwitchWorld is don\'t-care',
    '"cached" handles are loaded by the harness right before the frame in which they are first targeted (load() has '
    'no effect outside the instance, so this equals loading before start())',
    'nondefault=True entries: the loop that runs is not desper.default_loop; desper.default_loop is another, idle '
    'SimpleLoop (without a world, seated on a world of its own, or seated on one of the script handles - possibly the '
    'target) and every switch() passes from_world= (the only thing switch() lets the user of a custom loop specify); '
    'same oracle',
    'falsy=True entries: every world is an instance of a World subclass whose truth value is False (__bool__ False '
    'or __len__ 0); a world is a world whatever bool() says, same oracle; the muted kind then replays '
    'WorldHandle.load step by step because the real one hard-codes World()',
    'loadfault=True (harness entry switch-loadfault, deliberately not part of TIERS): a load fault is not mentioned '
    'by the statement.  The flavour lets one load() raise once, adopts whatever state the loop and the handles are '
    'left in from the public API, restarts and retries the request under the normal oracle.  On the current code it '
    'reports that a restart (switch to the own handle with clear_current) retried after its reload failed loads twice '
    'and loses on_switch_in, because the current handle is then uncached and switch() no longer recognises the '
    'self-switch',
    'callstyle=True entries (default loop): every switch() call is spelled in one of five ways that the signature '
    'makes equivalent - flags as keywords and no from_world, from_world=<the running world>, from_world=None written '
    'out (the documented default: "the default loop\'s current world"), flags positional, flags and None positional; '
    'same oracle',
    'switch() from a processor passes from_world explicitly, from callbacks and coroutines it relies on '
    'desper.default_loop (pointed at the loop under test for the duration of the path)',
    'after an exception escaped CoroutineProcessor.process its rotation may be off by one frame (C08/C09 matter): '
    'requests are issued whenever their origin code runs, idle frames in between are accepted',
]
OUTSIDE = ['more handles / requests than the bounds', 'Loop subclasses other than SimpleLoop',
           'handles cleared or worlds enabled/disabled by user code between switches',
           'switch requests issued while another one is in flight (e.g. from on_switch_out handlers)']

TECHNIQUE = 'bounded symbolic execution (symx/z3) of switch scripts on the real SimpleLoop (targets, flags, origins, cached state as solver variables)'
