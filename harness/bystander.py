"""Bystanders: a second set of desper objects alive during every path of every harness (quick tier).

The statements are about one world, one dispatcher, one coroutine processor ... at a time, and the harnesses
build exactly one of each per path.  A change that moves per-instance state to the class or the module
(`_event_queue = []` as a class attribute, a module-level cache, a mutable default argument) is invisible to them.
The engine therefore wraps every harness function: before the harness runs, a small independent set of objects with
PENDING state is created; after the harness has completed, each bystander must still satisfy its own instance of
the property, untouched by whatever the harness did to its own objects:

  * a disabled EventDispatcher with one deferred event            (C04 / C03 for the bystander)
  * a disabled World with one postponed on_add and one processor  (C02 / C07)
  * a CoroutineProcessor with one sleeper and one pending kill    (C08 / C09)
  * a Transform2D with one listener                               (C20)
  * a ResourceMap with one handle and a static snapshot           (C12 / C17)

Everything here is concrete: no solver variable is involved, the checks are plain booleans in both spaces.
"""
import desper
from desper.events import EventDispatcher
from desper.logic.world import World


@desper.event_handler('by_ping')
class _Ear:
    def __init__(self):
        self.got = []

    def by_ping(self, *a):
        self.got.append(a)


@desper.event_handler('on_add', 'on_remove')
class _Comp:
    def __init__(self):
        self.log = []

    def on_add(self, entity, world):
        self.log.append(('on_add', entity, world))

    def on_remove(self, entity, world):
        self.log.append(('on_remove', entity, world))


class _Proc(desper.Processor):
    def __init__(self):
        self.calls = []

    def process(self, dt):
        self.calls.append(dt)


@desper.event_handler('on_position_change')
class _Watcher:
    def __init__(self):
        self.got = []

    def on_position_change(self, value):
        self.got.append(value)


class _Handle(desper.Handle):
    def __init__(self):
        super().__init__()
        self.loads = 0

    def load(self):
        self.loads += 1
        return ['bystander resource', self.loads]


class Bystanders:
    def __init__(self):
        # dispatcher: one deferred event
        self.d = EventDispatcher()
        self.ear = _Ear()
        self.d.add_handler(self.ear)
        self.d.dispatch_enabled = False
        self.d.dispatch('by_ping', 1)
        # world: one postponed on_add, one processor
        self.w = World()
        self.w.dispatch_enabled = False
        self.comp = _Comp()
        self.w.create_entity(self.comp, entity_id='bystander')
        self.proc = _Proc()
        self.w.add_processor(self.proc)
        # coroutines: a sleeper (wakes after 5) and an active one whose kill is pending
        self.cp = desper.CoroutineProcessor()
        self.ran = {'sleeper': 0, 'victim': 0}

        def sleeper():
            self.ran['sleeper'] += 1
            yield 5
            self.ran['sleeper'] += 1
            yield 100

        def victim():
            while True:
                self.ran['victim'] += 1
                yield

        self.g_sleeper, self.g_victim = sleeper(), victim()
        self.cp.start(self.g_sleeper)
        self.cp.start(self.g_victim)
        self.cp.process(1)
        self.cp.kill(self.g_victim)
        # transform
        self.t = desper.Transform2D()
        self.watcher = _Watcher()
        self.t.add_handler(self.watcher)
        # resources
        self.m = desper.ResourceMap()
        self.handle = _Handle()
        self.m['by/res'] = self.handle
        self.snapshot = self.m.get_static_map()

    def check(self, sp):
        who = 'bystander (a second, independent object created before the harness ran): '
        # ---- dispatcher
        sp.check(self.ear.got == [], 'bystander-dispatcher',
                 who + 'its deferred event was delivered while it was still disabled: %r' % (self.ear.got,))
        sp.check(self.d.dispatch_enabled is False, 'bystander-dispatcher', who + 'its dispatcher got enabled')
        self.d.dispatch_enabled = True
        sp.check(self.ear.got == [(1,)], 'bystander-dispatcher',
                 who + 'enabling its dispatcher delivered %r instead of its one deferred event' % (self.ear.got,))
        # ---- world
        sp.check(self.comp.log == [] and self.proc.calls == [], 'bystander-world',
                 who + 'its world was touched: callbacks %r, processor calls %r' % (self.comp.log, self.proc.calls))
        self.w.dispatch_enabled = True
        sp.check(self.comp.log == [('on_add', 'bystander', self.w)], 'bystander-world',
                 who + 'enabling its world delivered %r instead of the one postponed on_add' % (self.comp.log,))
        sp.check(tuple(self.w.processors) == (self.proc,) and self.w.get_processor(_Proc) is self.proc
                 and self.proc.world is self.w, 'bystander-world', who + 'its processor list changed: %r' % (self.w.processors,))
        self.w.process(0.5)
        sp.check(self.proc.calls == [0.5], 'bystander-world', who + 'process(0.5) called its processor with %r' % (self.proc.calls,))
        sp.check(self.w.get(_Comp) == [('bystander', self.comp)], 'bystander-world', who + 'get() of its world gives %r' % (self.w.get(_Comp),))
        # ---- coroutines
        sp.check(self.ran == {'sleeper': 1, 'victim': 1}, 'bystander-coroutines',
                 who + 'its coroutines ran while nobody processed them: %r' % (self.ran,))
        self.cp.process(1)
        sp.check(self.ran == {'sleeper': 1, 'victim': 1}, 'bystander-coroutines',
                 who + 'after process(1): %r (the killed one must not run, the sleeper must still sleep)' % (self.ran,))
        self.cp.process(10)
        sp.check(self.ran == {'sleeper': 2, 'victim': 1}, 'bystander-coroutines',
                 who + 'after process(10): %r (the sleeper must have been resumed exactly once)' % (self.ran,))
        # ---- transform
        sp.check(self.watcher.got == [], 'bystander-transform', who + 'its listener was told %r' % (self.watcher.got,))
        v = desper.math.Vec2(3, 4)
        self.t.position = v
        sp.check(len(self.watcher.got) == 1 and self.watcher.got[0] is self.t.position, 'bystander-transform',
                 who + 'assigning its position told its listener %r' % (self.watcher.got,))
        # ---- resources
        sp.check(self.handle.loads == 0 and not self.handle.cached, 'bystander-resources', who + 'its handle was loaded')
        r = self.m['by/res']
        sp.check(self.snapshot.by.res is r and self.handle() is r and self.handle.loads == 1, 'bystander-resources',
                 who + 'map, snapshot and handle disagree or loaded %d times' % self.handle.loads)


def wrap(fn):
    """harness function -> the same function with an optional reserved parameter `_bystander`."""
    def wrapped(sp, _bystander=False, **params):
        if not _bystander:
            return fn(sp, **params)
        by = Bystanders()
        fn(sp, **params)
        by.check(sp)
    wrapped.__name__ = getattr(fn, '__name__', 'harness')
    wrapped.__wrapped__ = fn
    return wrapped
