#!/usr/bin/env python3
"""Systematic mutation sweep: first-order AST mutants of desper/*.py that SURVIVE the 111 tests are run against
the quick checks of the properties anchored in the mutated file.

usage: mutation_sweep.py [--workers N] [--files f1,f2] [--limit K] [--out DIR]
Results: <out>/results.jsonl (one line per mutant), <out>/REPORT.md.
Mutants are applied in scratch worktrees (/tmp/msw-<k>); /repo is never touched.
"""
import argparse, ast, copy, json, os, subprocess, sys, concurrent.futures as cf, time

VERIF = os.path.dirname(os.path.dirname(os.path.abspath(__file__)))
OWN = {
    'desper/events.py': ['C03', 'C04', 'C10', 'C02'],
    'desper/logic/world.py': ['C01', 'C02', 'C05', 'C06', 'C07'],
    'desper/logic/coroutines.py': ['C08', 'C09'],
    'desper/loop.py': ['C13', 'C14', 'C04'],
    'desper/model/tree.py': ['C11', 'C12', 'C17'],
    'desper/model/world.py': ['C15'],
    'desper/model/__init__.py': ['C16'],
    'desper/logic/__init__.py': ['C19'],
    'desper/logic/spatial.py': ['C20'],
    'desper/math.py': ['C18'],
    'desper/bisect.py': ['C07'],
}
CMP = {ast.Lt: ast.LtE, ast.LtE: ast.Lt, ast.Gt: ast.GtE, ast.GtE: ast.Gt, ast.Eq: ast.NotEq, ast.NotEq: ast.Eq,
       ast.Is: ast.IsNot, ast.IsNot: ast.Is, ast.In: ast.NotIn, ast.NotIn: ast.In}
BIN = {ast.Add: ast.Sub, ast.Sub: ast.Add, ast.Mult: ast.Div, ast.Div: ast.Mult}


def sites(tree):
    """deterministic list of (node index in ast.walk order, kind, description)"""
    out = []
    doc_ids = set()
    for n in ast.walk(tree):
        if isinstance(n, (ast.FunctionDef, ast.ClassDef, ast.Module)) and n.body and isinstance(n.body[0], ast.Expr) \
                and isinstance(getattr(n.body[0], 'value', None), ast.Constant) and isinstance(n.body[0].value.value, str):
            doc_ids.add(id(n.body[0]))
            doc_ids.add(id(n.body[0].value))
    ann = set()
    for n in ast.walk(tree):
        for f in ('annotation', 'returns'):
            a = getattr(n, f, None)
            if a is not None:
                for m in ast.walk(a):
                    ann.add(id(m))
    for i, n in enumerate(ast.walk(tree)):
        if id(n) in doc_ids or id(n) in ann:
            continue
        ln = getattr(n, 'lineno', 0)
        if isinstance(n, ast.Compare) and len(n.ops) == 1 and type(n.ops[0]) in CMP:
            out.append((i, 'cmp', '%d: %s -> %s' % (ln, type(n.ops[0]).__name__, CMP[type(n.ops[0])].__name__)))
        elif isinstance(n, ast.BoolOp):
            out.append((i, 'bool', '%d: and<->or' % ln))
        elif isinstance(n, ast.UnaryOp) and isinstance(n.op, ast.Not):
            out.append((i, 'not', '%d: drop not' % ln))
        elif isinstance(n, (ast.If, ast.While)):
            out.append((i, 'negtest', '%d: negate %s test' % (ln, type(n).__name__)))
        elif isinstance(n, ast.IfExp):
            out.append((i, 'negtest', '%d: negate conditional expression' % ln))
        elif isinstance(n, ast.Constant) and isinstance(n.value, bool):
            out.append((i, 'const', '%d: %r -> %r' % (ln, n.value, not n.value)))
        elif isinstance(n, ast.Constant) and isinstance(n.value, (int, float)) and not isinstance(n.value, bool):
            out.append((i, 'const', '%d: %r -> %r' % (ln, n.value, n.value + 1)))
        elif isinstance(n, ast.BinOp) and type(n.op) in BIN:
            out.append((i, 'binop', '%d: %s -> %s' % (ln, type(n.op).__name__, BIN[type(n.op)].__name__)))
        elif isinstance(n, ast.Expr) and isinstance(n.value, ast.Call):
            out.append((i, 'delstmt', '%d: delete call statement' % ln))
        elif isinstance(n, (ast.Assign, ast.AugAssign)):
            out.append((i, 'delstmt', '%d: delete assignment' % ln))
        elif isinstance(n, ast.Return) and n.value is not None:
            out.append((i, 'retnone', '%d: return None' % ln))
        elif isinstance(n, (ast.Break, ast.Continue)):
            out.append((i, 'brkcont', '%d: break<->continue' % ln))
    return out


def mutate(src, index, kind):
    tree = ast.parse(src)
    parents = {}
    for p in ast.walk(tree):
        for c in ast.iter_child_nodes(p):
            parents[id(c)] = p
    for i, n in enumerate(ast.walk(tree)):
        if i != index:
            continue
        if kind == 'cmp':
            n.ops = [CMP[type(n.ops[0])]()]
        elif kind == 'bool':
            n.op = ast.Or() if isinstance(n.op, ast.And) else ast.And()
        elif kind == 'not':
            _replace(parents, n, n.operand)
        elif kind == 'negtest':
            n.test = ast.UnaryOp(op=ast.Not(), operand=n.test)
        elif kind == 'const':
            n.value = (not n.value) if isinstance(n.value, bool) else n.value + 1
        elif kind == 'binop':
            n.op = BIN[type(n.op)]()
        elif kind == 'delstmt':
            _replace(parents, n, ast.Pass())
        elif kind == 'retnone':
            n.value = None
        elif kind == 'brkcont':
            _replace(parents, n, ast.Continue() if isinstance(n, ast.Break) else ast.Break())
        break
    ast.fix_missing_locations(tree)
    return ast.unparse(tree) + '\n'


def _replace(parents, node, new):
    p = parents[id(node)]
    for f, v in ast.iter_fields(p):
        if v is node:
            setattr(p, f, new)
            return
        if isinstance(v, list):
            for k, x in enumerate(v):
                if x is node:
                    v[k] = new
                    return


def sh(cmd, cwd=None, timeout=900, env=None):
    """run a shell command in its own process group; on timeout the whole group is killed (no orphans)"""
    import signal
    p = subprocess.Popen(cmd, shell=True, cwd=cwd, stdout=subprocess.PIPE, stderr=subprocess.STDOUT, text=True,
                         env=env, start_new_session=True)
    try:
        out, _ = p.communicate(timeout=timeout)
        return p.returncode, out
    except subprocess.TimeoutExpired:
        try:
            os.killpg(p.pid, signal.SIGKILL)
        except ProcessLookupError:
            pass
        p.wait()
        return 124, 'TIMEOUT'


def work(args):
    wid, jobs, jobs_per_check = args[:3]
    skip_tests = len(args) > 3 and args[3]
    wt = '/tmp/msw-%d' % wid
    sh('git -C /repo worktree remove --force %s' % wt)
    rc, out = sh('git -C /repo worktree add --detach %s HEAD' % wt)
    assert rc == 0, out
    results = []
    try:
        for (f, idx, kind, desc) in jobs:
            path = os.path.join(wt, f)
            src = open(os.path.join('/repo', f)).read()
            try:
                msrc = mutate(src, idx, kind)
                compile(msrc, f, 'exec')
            except Exception as e:      # noqa
                results.append(dict(file=f, site=desc, kind=kind, status='invalid', detail=repr(e)[:100]))
                continue
            if msrc == ast.unparse(ast.parse(src)) + '\n':
                results.append(dict(file=f, site=desc, kind=kind, status='no-change'))
                continue
            open(path, 'w').write(msrc)
            try:
                if skip_tests:
                    out = '111 passed'
                else:
                    rc, out = sh('ulimit -v 6000000; /venv/bin/python -m pytest -x -q -p no:cacheprovider --timeout=60 2>&1 | tail -1',
                                 cwd=wt, timeout=300)
                if '111 passed' not in out:
                    results.append(dict(file=f, site=desc, kind=kind, status='killed-by-tests'))
                    continue
                verdict, by = 'survived', None
                detail = []
                for pid in OWN[f]:
                    env = dict(os.environ, DESPER_REPO=wt, VERIF_JOBS=str(jobs_per_check),
                               VERIF_EVIDENCE_DIR='/tmp/msw-ev-%d' % wid)
                    rc, out = sh('ulimit -v 12000000; bin/check %s --tier quick' % pid, cwd=VERIF, timeout=900, env=env)
                    cl = [l for l in out.splitlines() if l.startswith('counterexample')]
                    detail.append('%s exit %d %s' % (pid, rc, (cl[0].split('clause ')[1].split(')')[0] if cl else '')))
                    if rc == 1:
                        verdict, by = 'killed-by-check', pid
                        break
                    if rc not in (0, 1) and verdict == 'survived':
                        verdict = 'inconclusive'
                results.append(dict(file=f, site=desc, kind=kind, status=verdict, by=by, detail=detail))
            finally:
                open(path, 'w').write(src)
            print(json.dumps(results[-1]), flush=True)
    finally:
        sh('git -C /repo worktree remove --force %s' % wt)
    return results


def main():
    ap = argparse.ArgumentParser()
    ap.add_argument('--workers', type=int, default=4)
    ap.add_argument('--jobs-per-check', type=int, default=4)
    ap.add_argument('--files', default='')
    ap.add_argument('--limit', type=int, default=0)
    ap.add_argument('--out', default=os.path.join(VERIF, 'mutation'))
    ap.add_argument('--recheck', action='store_true', help='re-run the checks for the test-survivors recorded in <out>/results.jsonl')
    a = ap.parse_args()
    if a.recheck:
        return recheck(a)
    files = [f for f in OWN if not a.files or f in a.files.split(',')]
    jobs = []
    for f in files:
        src = open(os.path.join('/repo', f)).read()
        for idx, kind, desc in sites(ast.parse(src)):
            jobs.append((f, idx, kind, desc))
    if a.limit:
        import random
        random.Random(0).shuffle(jobs)
        jobs = jobs[:a.limit]
    print('%d mutants over %d files' % (len(jobs), len(files)), flush=True)
    chunks = [jobs[i::a.workers] for i in range(a.workers)]
    t0 = time.time()
    res = []
    with cf.ProcessPoolExecutor(max_workers=a.workers) as ex:
        for r in ex.map(work, [(i, chunks[i], a.jobs_per_check) for i in range(a.workers)]):
            res.extend(r)
    os.makedirs(a.out, exist_ok=True)
    with open(os.path.join(a.out, 'results.jsonl'), 'w') as f:
        for r in res:
            f.write(json.dumps(r) + '\n')
    report(res, a.out, time.time() - t0)


def recheck(a):
    path = os.path.join(a.out, 'results.jsonl')
    old = [json.loads(l) for l in open(path)]
    files = a.files.split(',') if a.files else list(OWN)
    # site descriptions are 'LINE: what'; line numbers may have moved: re-derive the site list on the current source and
    # match by (kind, what, ordinal among equal descriptions ignoring the line number)
    todo = []
    for f in files:
        src = open(os.path.join('/repo', f)).read()
        cur = sites(ast.parse(src))
        def key(desc): return desc.split(': ', 1)[1]
        import collections
        seen_old = collections.Counter()
        ord_old = {}
        for r in old:
            if r['file'] != f:
                continue
            k = (r['kind'], key(r['site']))
            ord_old[id(r)] = (k, seen_old[k])
            seen_old[k] += 1
        seen_cur = collections.Counter()
        cur_by = {}
        for idx, kind, desc in cur:
            k = (kind, key(desc))
            cur_by[(k, seen_cur[k])] = (idx, kind, desc)
            seen_cur[k] += 1
        for r in old:
            if r['file'] == f and r['status'] in ('killed-by-check', 'survived', 'inconclusive') and ord_old[id(r)] in cur_by:
                idx, kind, desc = cur_by[ord_old[id(r)]]
                todo.append((f, idx, kind, desc))
    print('rechecking %d test-survivors' % len(todo), flush=True)
    chunks = [todo[i::a.workers] for i in range(a.workers)]
    t0 = time.time()
    new = []
    with cf.ProcessPoolExecutor(max_workers=a.workers) as ex:
        for r in ex.map(work, [(i, chunks[i], a.jobs_per_check, True) for i in range(a.workers)]):
            new.extend(r)
    keep = [r for r in old if not (r['file'] in files and r['status'] in ('killed-by-check', 'survived', 'inconclusive'))]
    res = keep + new
    with open(path, 'w') as f:
        for r in res:
            f.write(json.dumps(r) + '\n')
    report(res, a.out, time.time() - t0)


def report(res, out, wall):
    import collections
    by_file = collections.defaultdict(collections.Counter)
    for r in res:
        by_file[r['file']][r['status']] += 1
    lines = ['# Mutation sweep (first-order AST mutants of desper; quick tier of the anchored properties)', '',
             'wall %.0f s.  A mutant that fails the 111 tests is not interesting here; of the mutants that SURVIVE the tests, '
             '"killed-by-check" were reported by a quick check (exit 1, replayed), "survived" were not (equivalent mutants, '
             'behaviour outside every claim, or a gap), "inconclusive" = a check answered exit 3.' % wall, '',
             '| file | mutants | killed by tests | survive tests | killed by a check | inconclusive | survived |', '|---|---|---|---|---|---|---|']
    tot = collections.Counter()
    for f, c in sorted(by_file.items()):
        n = sum(c.values()) - c['invalid'] - c['no-change']
        st = c['killed-by-check'] + c['survived'] + c['inconclusive']
        lines.append('| %s | %d | %d | %d | %d | %d | %d |' % (f, n, c['killed-by-tests'], st, c['killed-by-check'], c['inconclusive'], c['survived']))
        tot.update(c)
    n = sum(tot.values()) - tot['invalid'] - tot['no-change']
    st = tot['killed-by-check'] + tot['survived'] + tot['inconclusive']
    lines.append('| **total** | %d | %d | %d | %d | %d | %d |' % (n, tot['killed-by-tests'], st, tot['killed-by-check'], tot['inconclusive'], tot['survived']))
    lines += ['', '## Survivors (not killed by the tests, not reported by a check)', '']
    for r in res:
        if r['status'] in ('survived', 'inconclusive'):
            lines.append('* `%s` %s [%s] %s' % (r['file'], r['site'], r['status'], '; '.join(r.get('detail', []))))
    open(os.path.join(out, 'REPORT.md'), 'w').write('\n'.join(lines) + '\n')
    print('\n'.join(lines[:16]))


if __name__ == '__main__':
    main()
