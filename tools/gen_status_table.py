#!/usr/bin/env python3
"""Markdown table: per property, what the last quick and thorough runs covered (from evidence/by-tier)."""
import json, os
VERIF = os.path.dirname(os.path.dirname(os.path.abspath(__file__)))
print('| id | harnesses (entries quick/thorough) | quick: paths · queries · solver s · wall s | thorough: paths · queries · solver s · wall s | exhaustive |')
print('|---|---|---|---|---|')
for i in range(1, 21):
    pid = 'C%02d' % i
    row = [pid]
    cells = []
    names = set()
    ex = []
    n_entries = []
    for tier in ('quick', 'thorough'):
        p = os.path.join(VERIF, 'evidence', 'by-tier', '%s.%s.json' % (pid, tier))
        if not os.path.exists(p):
            cells.append('-'); n_entries.append('-'); continue
        d = json.load(open(p)); c = d['coverage']
        names |= {h['harness'] for h in c['harnesses']}
        n_entries.append(str(len(c['harnesses'])))
        cells.append('%s · %s · %.0f · %.0f' % (format(c['evaluations'], ','), format(c['obligations'], ','), c['solver_time_s'], d['wall_s']))
        ex.append(str(c['exhaustive']))
    shown = sorted(names)
    if len(shown) > 6:
        shown = shown[:5] + ['… (%d)' % len(names)]
    print('| %s | %s (%s) | %s | %s | %s |' % (pid, ', '.join(shown), '/'.join(n_entries), cells[0], cells[1], '/'.join(ex)))
