"""C04 — a disabled dispatcher defers events and releases them once, in order, despite faults.

Harness `queue`: a real EventDispatcher (sub-classed only to *count* dispatch() calls), two handlers,
q events dispatched while disabled, then up to `cycles` enabling assignments.  Every enabling
assignment carries a fault plan: kind in {none, raise, nested disable} at a SYMBOLIC delivery
position p (an unbounded solver integer compared with the running delivery index inside the
callback), so "at every possible delivery position" is one variable.  Between the cycles the program
may disable again, dispatch a further event, or change a registration.

Harness `switch`: the same oracle on two real Worlds driven through desper.switch() (which disables
both worlds and queues on_switch_in) and SimpleLoop.switch (whose enabling assignment releases).

Reference model (per dispatcher): `pending` = ids of queued events in dispatch order, `must` = ids whose
name had a registered listener when dispatched, `got[k]` = handlers that received k so far,
`ghost` = ids whose release state is left open by the statement (see ASSUMPTIONS).
"""
import desper
from desper.events import EventDispatcher, event_handler
from desper.logic.world import World

from harness.hb_util import order_hashes
from harness.reenter import h_reenter

PROPERTY = 'C04'

NONE, RAISE, DISABLE, EMIT = 0, 1, 2, 3
KIND = {NONE: 'none', RAISE: 'raise', DISABLE: 'nested-disable', EMIT: 'dispatch-only'}
# fault plans: (kind, name of an event the same callback dispatches at the fault position, or None)
PLAIN_PLANS = ((NONE, None), (RAISE, None), (DISABLE, None))


class Boom(Exception):
    """Stands for Quit / SwitchWorld: an exception raised from a callback by design."""


class Runaway(BaseException):
    """The dispatch() call bound of one enabling assignment was exceeded."""


class Counting:
    """Mixin: counts dispatch() calls; above `limit` the call is refused (termination bound)."""
    calls = 0
    limit = None

    def dispatch(self, event_name, *args, **kwargs):
        self.calls += 1
        if self.limit is not None and self.calls > self.limit:
            raise Runaway()
        return super().dispatch(event_name, *args, **kwargs)


class CountingDispatcher(Counting, EventDispatcher):
    pass


class CountingWorld(Counting, World):
    pass


class Base:
    def __init__(self, tr, idx):
        self.tr, self.idx = tr, idx

    def __hash__(self):             # constants from hb_util.order_hashes: h0 is served before h1 as long as the
                                    # dispatcher hashes weak references like their referents (the oracle does not care)
        return HASHES[self.idx]


@event_handler(a='on_a')
class HA(Base):
    """listens to 'a' only"""

    def on_a(self, k):
        self.tr.delivered(self, 'a', k)

    def a(self, k):                                 # not mapped: must never be called
        self.tr.sp.fail('wrong-method', 'HA.a called, the mapping says on_a')


@event_handler('a', b='on_b', on_switch_in='sw_in', on_switch_out='sw_out')
class HF(Base):
    """listens to 'a', 'b' and the two switch events"""

    def a(self, k):
        self.tr.delivered(self, 'a', k)

    def on_b(self, k):
        self.tr.delivered(self, 'b', k)

    def sw_in(self, from_world, to_world):
        self.tr.delivered(self, 'on_switch_in', self.tr.special.get('on_switch_in'))

    def sw_out(self, from_world, to_world):
        self.tr.delivered(self, 'on_switch_out', self.tr.special.get('on_switch_out'))


HASHES = order_hashes([[(0, HA.on_a), (1, HF.a)]], 2, (0, 1))      # 'a' is the only event with two listeners
LISTENS = {HA: ('a',), HF: ('a', 'b', 'on_switch_in', 'on_switch_out')}


class Tracker:
    """One dispatcher under observation + its reference model."""

    def __init__(self, sp, d, tag):
        self.sp, self.d, self.tag = sp, d, tag
        self.handlers = []          # all handler objects (kept alive by the harness)
        self.reg = set()            # indices currently registered (model)
        self.names = {}             # event id -> name
        self.total = 0
        self.pending = []
        self.must = set()
        self.ghost = set()
        self.got = {}
        self.special = {}           # 'on_switch_in' -> event id of the scripted switch
        self.phase = None           # None | 'enable' | 'immediate'
        self.stray = []
        self.log = []
        self.fired = False
        self.fidx = None
        self.kind, self.p, self.emit = NONE, None, None

    # ---------------------------------------------------------------- model helpers
    def listeners(self, name):
        return {i for i in self.reg if name in LISTENS[type(self.handlers[i])]}

    def new_event(self, name):
        k = self.total
        self.total += 1
        self.names[k] = name
        self.got[k] = set()
        return k

    def queued(self, k):
        """event k was dispatched while disabled"""
        self.pending.append(k)
        if self.listeners(self.names[k]):
            self.must.add(k)
        else:
            self.sp.cover('no-listener-at-dispatch')

    # ---------------------------------------------------------------- callbacks
    def delivered(self, h, name, k):
        sp = self.sp
        if self.phase is None:
            if self.d.dispatch_enabled:
                # delivered on the spot by code the harness does not drive directly (desper.switch on a world
                # it left enabled): not this property's business, judged as an ordinary immediate delivery
                self.stray.append((k, h.idx, name))
                return
            sp.fail('runs-while-disabled', '%s: callback %s of handler %d (event #%r) ran outside any enabling '
                    'assignment while dispatching was disabled' % (self.tag, name, h.idx, k))
        if self.phase == 'immediate':
            self.log.append((k, h.idx, name))
            return
        i = len(self.log)
        self.log.append((k, h.idx, name))
        if self.kind != NONE and not self.fired:
            if self.p == i:                         # symbolic position: solver decision
                self.fired = True
                self.fidx = i
                sp.note('    delivery %d (event #%r -> handler %d): %s%s' % (
                    i, k, h.idx, KIND[self.kind], ' + dispatch(%r)' % self.emit if self.emit else ''))
                if self.kind == DISABLE:
                    self.d.dispatch_enabled = False
                if self.emit:
                    self.dispatch_from_callback(self.emit)
                if self.kind == RAISE:
                    raise Boom()

    def dispatch_from_callback(self, name):
        """one nested level: the callback at the fault position dispatches a new event itself.  If the public flag
        reads False at that moment (after its nested disable) the event is deferred behind everything that is still
        pending; otherwise it is an ordinary immediate delivery, nested in place (judged like C03 does)."""
        sp = self.sp
        k = self.new_event(name)
        if self.d.dispatch_enabled:
            outer_phase, outer_log = self.phase, self.log
            self.phase, self.log = 'immediate', []
            try:
                self.d.dispatch(name, k)
            finally:
                inner, self.phase, self.log = self.log, outer_phase, outer_log
            exp = sorted(self.listeners(name))
            sp.check(sorted(h for (_, h, _) in inner) == exp and all(kk == k for (kk, _, _) in inner),
                     'immediate-delivery', '%s: event #%d dispatched by a callback while enabled reached %r, expected '
                     'handlers %r' % (self.tag, k, inner, exp))
            self.got[k].update(exp)
            sp.cover('callback-dispatch-immediate')
        else:
            self.d.dispatch(name, k)
            if self.pending_after_fault_possible():
                sp.cover('callback-dispatch-deferred-behind-pending')
            self.queued(k)
        sp.note('      callback dispatched %r as event #%d (%s)' % (
            name, k, 'deferred' if k in self.pending else 'delivered at once'))

    def pending_after_fault_possible(self):
        kf = self.log[self.fidx][0]
        return any(k > kf for k in self.pending)

    # ---------------------------------------------------------------- program operations
    def set_registered(self, i, on):
        h = self.handlers[i]
        if on:
            self.d.add_handler(h)
            self.reg.add(i)
        else:
            self.d.remove_handler(h)
            self.reg.discard(i)
        self.sp.note('%s: %s_handler(h%d)' % (self.tag, 'add' if on else 'remove', i))

    def dispatch(self, name):
        """dispatch(name, k) by the program; immediate delivery is expected iff the public flag is on"""
        sp = self.sp
        k = self.new_event(name)
        enabled = self.d.dispatch_enabled
        sp.note('%s: dispatch(%r, %d) while %s' % (self.tag, name, k, 'enabled' if enabled else 'disabled'))
        if enabled:
            self.immediate(lambda: self.d.dispatch(name, k), k)
        else:
            try:
                self.d.dispatch(name, k)
            except Exception as ex:     # noqa
                sp.fail('dispatch-raises', '%s: dispatch while disabled raised %r' % (self.tag, ex))
            self.queued(k)
        return k

    def immediate(self, call, k):
        """an event dispatched while enabled (needed for on_switch_out; the rest is C03)"""
        sp = self.sp
        self.phase, self.log = 'immediate', []
        try:
            call()
        finally:
            self.phase = None
        exp = sorted(self.listeners(self.names[k]))
        sp.check(sorted(h for (_, h, _) in self.log) == exp and all(kk == k for (kk, _, _) in self.log),
                 'immediate-delivery', '%s: event #%d dispatched while enabled reached %r, expected handlers %r'
                 % (self.tag, k, self.log, exp))

    def enable_cycle(self, do_enable, kind, p, what, emit=None):
        """one enabling assignment under a fault plan, then the oracle"""
        sp = self.sp
        self.phase, self.log, self.fired, self.fidx = 'enable', [], False, None
        self.kind, self.p, self.emit = kind, p, emit
        self.d.calls, self.d.limit = 0, 4 * self.total + 8
        sp.note('%s: %s   [fault plan: %s%s]' % (self.tag, what, KIND[kind], ' + dispatch(%r)' % emit if emit else ''))
        outcome = 'returned'
        try:
            do_enable()
        except Boom:
            outcome = 'boom'
        except Runaway:
            sp.fail('enable-terminates', '%s: %s made more than %d dispatch() calls for %d events ever '
                    'dispatched: the assignment does not terminate' % (self.tag, what, self.d.limit, self.total))
        except Exception as ex:     # noqa
            sp.fail('enable-raises', '%s: %s raised %r' % (self.tag, what, ex))
        finally:
            self.phase = None
            self.d.limit = None
        self.judge(outcome, what)

    # ---------------------------------------------------------------- oracle
    def judge(self, outcome, what):
        sp, tag = self.sp, self.tag
        log = self.log
        sp.note('    -> %s, deliveries (event, handler): %r' % (outcome, [(k, h) for (k, h, _) in log]))
        open_ids = set(self.pending) | self.ghost
        this = {}
        last = None
        for (k, h, name) in log:
            sp.check(k in self.names and name == self.names[k] and h in self.listeners(name), 'wrong-receiver',
                     '%s: %s delivered event #%r as %r to handler %d, which is not a registered listener of it'
                     % (tag, what, k, name, h))
            sp.check(k in open_ids and h not in self.got[k], 'redelivery',
                     '%s: %s delivered event #%d to handler %d a second time (or after it was released)'
                     % (tag, what, k, h))
            sp.check(last is None or k >= last, 'order', '%s: %s delivered event #%d after event #%r'
                     % (tag, what, k, last))
            last = k
            self.got[k].add(h)
            this.setdefault(k, set()).add(h)
        if outcome == 'boom':
            sp.check(self.fired and self.kind == RAISE, 'enable-raises', '%s: %s raised without a raising callback'
                     % (tag, what))
        if self.fired and self.kind in (RAISE, DISABLE):
            kf = log[self.fidx][0]
            late = [k for (k, _, _) in log[self.fidx + 1:] if k != kf]
            sp.check(not late, 'released-after-fault',
                     '%s: %s went on to deliver events %r after the callback at delivery %d %s'
                     % (tag, what, late, self.fidx, 'raised' if self.kind == RAISE else 'disabled dispatching'))
            if self.kind == DISABLE:
                sp.check(outcome == 'returned', 'enable-raises', '%s: %s did not return normally' % (tag, what))
                sp.check(self.d.dispatch_enabled is False, 'flag',
                         '%s: dispatch_enabled reads %r after a callback disabled dispatching during the release'
                         % (tag, self.d.dispatch_enabled))
            sp.cover('raise-fired' if self.kind == RAISE else 'disable-fired')
            keep = []
            for k in self.pending:
                if k < kf:
                    self.expect_released(k, this, what)
                elif k == kf:
                    self.ghost.add(k)       # remaining handlers of the interrupted event: left open
                    if len(self.listeners(self.names[k])) > 1:
                        sp.cover('fault-inside-multi-handler-event')
                else:
                    keep.append(k)
            if keep:
                sp.cover('pending-after-fault')
            self.pending = keep
        else:
            sp.check(outcome == 'returned', 'enable-raises', '%s: %s raised although no callback did' % (tag, what))
            sp.check(self.d.dispatch_enabled is True, 'flag', '%s: dispatch_enabled reads %r after %s'
                     % (tag, self.d.dispatch_enabled, what))
            for k in self.pending:
                self.expect_released(k, this, what)
            if len(this) >= 2:
                sp.cover('released-two-in-order')
            self.pending = []
            self.ghost = set()

    def expect_released(self, k, this, what):
        """event k had to be fully released by this enabling assignment"""
        sp = self.sp
        exp = self.listeners(self.names[k])
        if k in self.must:
            sp.check(this.get(k, set()) == exp, 'not-released',
                     '%s: %s returned but event #%d (%r) reached handlers %r instead of the registered listeners %r'
                     % (self.tag, what, k, self.names[k], sorted(this.get(k, ())), sorted(exp)))
            if exp:
                sp.cover('released')
            self.ghost.discard(k)
        elif not this.get(k):
            self.ghost.add(k)               # never had to be queued; if it was, any later single delivery is accepted
        if this.get(k) and self.cycle_no > 0:
            sp.cover('released-in-later-cycle')

    cycle_no = 0


def draw_plan(sp, label, maxd, plans):
    kind, emit = plans[sp.choose(len(plans), label + '.plan')]
    p = sp.int(label + '.p', 0, maxd) if kind != NONE else None
    return kind, p, emit


BETWEEN = ['re-enable', 'disable', 'disable+dispatch a', 'disable+dispatch b', 'toggle h0', 'toggle h1']


def between(sp, tr, label, menu):
    op = menu[sp.choose(len(menu), label)]
    if op == 're-enable':
        return
    if op.startswith('disable'):
        tr.d.dispatch_enabled = False
        sp.note('%s: dispatch_enabled = False' % tr.tag)
        if op[-2:] in (' a', ' b'):
            if tr.pending:
                sp.cover('queued-behind-pending')
            tr.dispatch(op[-1])
    else:
        i = int(op[-1])
        tr.set_registered(i, i not in tr.reg)
        sp.cover('registration-change')


def h_queue(sp, q=2, cycles=2, names=('a', 'b'), plans=PLAIN_PLANS, menu=tuple(BETWEEN)):
    d = CountingDispatcher()
    tr = Tracker(sp, d, 'd')
    tr.handlers = [HA(tr, 0), HF(tr, 1)]
    for i in (0, 1):
        if sp.flag('registered-before[h%d]' % i):
            tr.set_registered(i, True)
    d.dispatch_enabled = False
    sp.note('d: dispatch_enabled = False')
    n = 1 + sp.choose(q, 'n-events')
    for j in range(n):
        tr.dispatch(sp.pick(list(names), 'name%d' % j))
    chg = sp.choose(3, 'change-before-release')
    if chg:
        tr.set_registered(chg - 1, (chg - 1) not in tr.reg)
        sp.cover('registration-change')

    def enable():
        d.dispatch_enabled = True

    for c in range(cycles):
        tr.cycle_no = c
        if c:
            if not (tr.pending or tr.ghost):
                break
            between(sp, tr, 'between%d' % c, list(menu))
        kind, p, emit = draw_plan(sp, 'cycle%d' % c, 2 * tr.total, [tuple(x) for x in plans])
        tr.enable_cycle(enable, kind, p, 'dispatch_enabled = True (cycle %d)' % c, emit)
    # epilogue: whatever is still pending comes out with a clean release, and a further disable/enable
    # pair delivers nothing at all
    tr.cycle_no = cycles
    tr.enable_cycle(enable, NONE, None, 'dispatch_enabled = True (final clean release)')
    d.dispatch_enabled = False
    tr.enable_cycle(enable, NONE, None, 'dispatch_enabled = True (nothing may be left)')
    sp.check(not tr.log, 'redelivery', 'an enabling assignment with nothing pending delivered %r' % (tr.log,))
    sp.done()


# ------------------------------------------------------------------------------------------ switch
class WorldHandle(desper.Handle):
    def __init__(self, world):
        self.world = world

    def load(self):
        return self.world


def h_switch(sp, q=2, plans=PLAIN_PLANS):
    """desper.switch() + SimpleLoop.switch: w1 -> w2 (release under a fault plan) -> back to w1."""
    loop = desper.SimpleLoop()
    trs = []
    for tag in ('w1', 'w2'):
        w = CountingWorld()
        tr = Tracker(sp, w, tag)
        tr.handlers = [HA(tr, 0), HF(tr, 1)]
        two = sp.flag('%s-has-second-listener' % tag)
        w.create_entity(tr.handlers[1])
        tr.reg.add(1)
        if two:
            w.create_entity(tr.handlers[0])
            tr.reg.add(0)
        trs.append(tr)
    t1, t2 = trs
    w1, w2 = t1.d, t2.d
    h1, h2 = WorldHandle(w1), WorldHandle(w2)
    loop.switch(h1)

    def script_switch(src, dst, handle):
        """the part of a world switch that runs inside a callback/processor: desper.switch raises"""
        out_id = src.new_event('on_switch_out')
        src.special['on_switch_out'] = out_id
        in_id = dst.new_event('on_switch_in')
        dst.special['on_switch_in'] = in_id
        sp.note('desper.switch(handle of %s, from_world=%s)' % (dst.tag, src.tag))
        caught = []

        def call():
            try:
                desper.switch(handle, from_world=src.d)
            except desper.SwitchWorld as ex:
                caught.append(ex)
        if src.d.dispatch_enabled:
            src.immediate(call, out_id)
        else:
            call()
            src.queued(out_id)
        if len(caught) != 1:
            raise RuntimeError('desper.switch did not raise SwitchWorld: the scripted switch cannot go on')
        if any(k == in_id for (k, _, _) in dst.stray):
            # the entered world was not disabled by switch(): on_switch_in went out at once (C13's business)
            got = sorted(h for (k, h, _) in dst.stray if k == in_id)
            sp.check(got == sorted(dst.listeners('on_switch_in')), 'immediate-delivery',
                     'on_switch_in delivered on the spot reached %r' % (got,))
            dst.got[in_id].update(got)
        else:
            dst.queued(in_id)
        del dst.stray[:]
        return caught[0]

    ex = script_switch(t1, t2, h2)
    # events arriving while the SwitchWorld exception travels to the loop
    n2 = sp.choose(q + 1, 'extra-on-w2')
    for j in range(n2):
        t2.dispatch(sp.pick(['a', 'b'], 'w2.name%d' % j))
    n1 = sp.choose(2, 'extra-on-w1')
    for j in range(n1):
        t1.dispatch('a')

    def enable_w2():
        loop.switch(ex.world_handle, ex.clear_current, ex.clear_next)
    kind, p, emit = draw_plan(sp, 'w2.release', 2 * t2.total, [tuple(x) for x in plans])
    t2.enable_cycle(enable_w2, kind, p, 'SimpleLoop.switch(handle of w2)', emit)
    if t2.fired:
        # follow-up after an interrupted release: a plain assignment, or the loop entering the same world again
        # (direct use of loop.switch / a restarted loop) with no disable in between
        def again():
            w2.dispatch_enabled = True

        def switch_again():
            loop.switch(h2)
        t2.cycle_no = 1
        if sp.flag('w2-follow-up-is-switch-again'):
            if t2.kind == RAISE and t2.pending:
                sp.cover('switch-again-with-pending-after-raise')
            t2.enable_cycle(switch_again, NONE, None, 'SimpleLoop.switch(handle of w2) again')
        else:
            t2.enable_cycle(again, NONE, None, 'w2.dispatch_enabled = True')
    # and back: w1 still holds its deferred events; on_switch_in must come after them
    ex2 = script_switch(t2, t1, h1)

    def enable_w1():
        loop.switch(ex2.world_handle, ex2.clear_current, ex2.clear_next)
    kind, p, emit = draw_plan(sp, 'w1.release', 2 * t1.total, [tuple(x) for x in plans])
    t1.enable_cycle(enable_w1, kind, p, 'SimpleLoop.switch(handle of w1)', emit)
    if n1:
        sp.cover('switch-in-behind-deferred')

    def again1():
        w1.dispatch_enabled = True
    t1.cycle_no = 1
    if t1.fired and sp.flag('w1-follow-up-is-switch-again'):
        if t1.kind == RAISE and t1.pending:
            sp.cover('switch-again-with-pending-after-raise')
        t1.enable_cycle(lambda: loop.switch(h1), NONE, None, 'SimpleLoop.switch(handle of w1) again')
    else:
        t1.enable_cycle(again1, NONE, None, 'w1.dispatch_enabled = True')
    w1.dispatch_enabled = False
    t1.enable_cycle(again1, NONE, None, 'w1.dispatch_enabled = True (nothing may be left)')
    sp.check(not t1.log, 'redelivery', 'an enabling assignment with nothing pending delivered %r' % (t1.log,))
    sp.done()


HARNESSES = {
    'queue': dict(fn=h_queue,
                  nontrivial=['raise-fired', 'disable-fired', 'pending-after-fault', 'released-in-later-cycle',
                              'released-two-in-order', 'registration-change', 'queued-behind-pending'],
                  required=['raise-fired', 'disable-fired', 'pending-after-fault', 'released-in-later-cycle',
                            'released-two-in-order', 'registration-change', 'no-listener-at-dispatch', 'released',
                            'fault-inside-multi-handler-event', 'queued-behind-pending']),  # = QUEUE_REQ
    'switch': dict(fn=h_switch,
                   nontrivial=['raise-fired', 'disable-fired', 'pending-after-fault', 'switch-in-behind-deferred'],
                   required=['raise-fired', 'disable-fired', 'pending-after-fault', 'released',
                             'switch-in-behind-deferred', 'released-in-later-cycle',
                             'switch-again-with-pending-after-raise']),
    # World lifecycle callbacks (on_add / on_remove relayed by World) where one callback disables dispatching in the
    # middle of a multi-callback operation: nothing may run while disabled, everything is released exactly once
    'lifecycle': dict(fn=h_reenter, nontrivial=['action-0-fired', 'postponed-by-callback'],
                      required=['action-0-fired', 'postponed-by-callback', 'multi-create', 'multi-delete-immediate',
                                'multi-delete-at-process']),
}

NESTED_Q = PLAIN_PLANS + ((DISABLE, 'a'), (DISABLE, 'b'))
NESTED_T = NESTED_Q + ((RAISE, 'a'), (EMIT, 'a'), (EMIT, 'b'))
QUEUE_REQ = ['raise-fired', 'disable-fired', 'pending-after-fault', 'released-in-later-cycle',
             'released-two-in-order', 'registration-change', 'no-listener-at-dispatch', 'released',
             'fault-inside-multi-handler-event', 'queued-behind-pending']

TIERS = {
    'quick': [
        ('queue', dict(q=3, cycles=2)),
        ('queue', dict(q=2, cycles=2, plans=NESTED_Q),
         {'required': QUEUE_REQ + ['callback-dispatch-deferred-behind-pending']}),
        ('switch', dict(q=1)),
        ('lifecycle', dict(L=2, actions=1, bystander=False), {'required': ['armed-callback-was-postponed']}),
    ],
    'thorough': [
        ('queue', dict(q=3, cycles=3)),
        ('queue', dict(q=3, cycles=2, plans=NESTED_T),
         {'required': QUEUE_REQ + ['callback-dispatch-deferred-behind-pending', 'callback-dispatch-immediate']}),
        ('switch', dict(q=2)),
        ('lifecycle', dict(L=3, actions=1, bystander=False), {'required': ['armed-callback-was-postponed']}),
    ],
}
BUDGET_S = {'quick': 120, 'thorough': 1500}

EXPLANATION = (
    'Bounded symbolic execution of the real EventDispatcher.dispatch / dispatch_enabled setter (and of '
    'desper.switch + SimpleLoop.switch on real Worlds).  Registration bits, number and names of deferred events, '
    'what the program does between enabling assignments and the kind of fault are finite solver choices; the '
    'delivery position of the fault is an unbounded solver integer compared with the running delivery index '
    'inside the callback, so z3 forks at every delivery into "the fault is here / later".  After every enabling '
    'assignment the delivery log is compared with a queue reference model; termination is a bound on the number '
    'of dispatch() calls made by one assignment (4*events+8), counted by a subclass.  All feasible paths inside '
    'the bounds are visited and z3 certifies branch by branch that none was skipped.')
RULE = ('one evaluation = one feasible path (distinct by construction); non-trivial = a fault actually fired, '
        'events stayed pending behind a fault, were released by a later cycle, two or more events were released '
        'in order, or a registration changed between dispatch and release')
BOUNDS = {
    'quick': 'queue: 1-3 events over names a,b dispatched while disabled; 2 handlers (one listens to a, one to a and b); '
             '2 faulty enable cycles + clean release + empty release; fault kind none/raise/nested disable at '
             'symbolic position p in [0, 2*events]; 6 program actions between cycles; '
             'nested level: 1-2 events, 2 cycles, the callback that disables dispatching at position p also dispatches '
             'a or b (deferred behind everything still pending); switch: w1->w2->w1 through desper.switch + SimpleLoop.switch, <=1 extra event on w2, <=1 on w1; '
             'lifecycle: World operations on one entity (6 component sets, L=2 of 7 operations) where the first on_add or on_remove of one armed component disables dispatching',
    'thorough': 'queue: as quick with 3 faulty cycles (up to 5 events in total); nested level: 1-3 events, 2 cycles, '
                'the callback at the fault position additionally dispatches a or b after a nested disable, before '
                'raising, or without any fault (immediate nested delivery); switch: <=2 extra events on w2; lifecycle: L=3',
}
ASSUMPTIONS = [
    'the gate works per event: the remaining handlers of the event that is being delivered when a callback '
    'raises or disables dispatching may or may not receive it (now or at a later enabling), but no handler '
    'receives it twice; every later event must stay pending',
    'an event whose name had no registered listener when it was dispatched may be dropped or queued; if it is '
    'delivered, then at most once per handler, to registered listeners, in order',
    'whether the exception of a raising callback propagates out of the enabling assignment is not asserted '
    '(no further event may be released after it in that assignment)',
    'after a callback disabled dispatching during a release the public flag must read False; after a '
    'release without fault it must read True',
    'events are only dispatched by the program while the public flag reads False (dispatching while '
    'enabled with events pending behind an exception is outside the statement), except on_switch_out',
    'registrations change between, not inside, enabling assignments (inside is C03)',
    'an event dispatched by a callback during a release is deferred iff the public flag reads False at that moment '
    '(then it is the newest event: it comes out after every older undelivered one); while the flag reads True it is '
    'an ordinary immediate delivery to the registered listeners, nested in place, and never delivered again',
    'the dispatcher subclass only counts dispatch() calls and refuses the call above the bound',
    'lifecycle harness (harness/reenter.py): the on_add / on_remove callbacks a World relays for create_entity, add_component, '
    'remove_component, delete_entity (immediate, or deferred + process) count as callbacks of the statement: once one of them '
    'has disabled dispatching, no later callback of the same operation may start before the flag reads True again, and each is '
    'delivered exactly once by the end (multiset comparison, order inside one operation is free)',
]
OUTSIDE = ['callbacks that re-enable dispatching while a release is running; more than one event dispatched from '
           'inside callbacks of one release, or from callbacks other than the one at the fault position',
           'more than 3 deferred events / 3 faulty cycles', 'clear_current / clear_next switches (C13)',
           'threads']

TECHNIQUE = 'bounded symbolic execution (symx/z3) with fault kind and fault position as solver variables (LIA decisions on the delivery index)'
