"""C20 — Transform setters notify listeners with the value that was stored.

Per path: `n_tr` transforms (Transform2D or Transform3D) are constructed with default or symbolic
constructor values, listeners are attached (one per event, `n_all` listening to all three events, one
listening to all three events on *every* transform), then `L` assignments are performed; target
transform, property and value of every assignment are solver variables.  The 2D rotation is an exact
real (`SReal`); the real setter's `value % 360.` introduces `value = 360 q + r, 0 <= r < 360, q integer`
(mixed integer/real linear arithmetic).  Vector values are Vec2/Vec3 objects with symbolic entries.

All variables are drawn before the first transform is constructed (the proxies' `%` creates hidden
solver variables; drawing first keeps the concrete replay's variable numbering aligned).

Oracle (public API only) after the constructors and after every assignment:
  * the property reads the assigned value (the same object or an entrywise equal vector; for the 2D
    rotation a value in [0, 360) congruent to the assigned one modulo 360);
  * every listener of the matching event on that transform was called exactly once more, through the
    matching callback, with the object (vectors) / a value validly equal (2D rotation) to what the
    property getter returns right afterwards; every other listener was not called;
  * every listener holds its transform(s) and reads the matching property from inside its callback: it
    reads the value it is being told (same object / validly equal 2D rotation);
  * optionally (`boom`) one more all-event listener raises a harness exception from its callback during
    a solver-chosen assignment: the property still reads the assigned value afterwards, every listener
    that was reached was called once and was told that value (listeners after the raising one may not be
    reached; whether the exception reaches the assigning statement is left to C03/C04);
  * all other properties of all transforms read what they read before.
"""
import desper
import desper.math as dmath
from desper.logic.spatial import Transform2D, Transform3D

PROPERTY = 'C20'

PROPS = ('position', 'rotation', 'scale')
EVENTS = tuple('on_%s_change' % p for p in PROPS)


class Boom(Exception):
    """Raised by the armed listener from inside its callback (desper handlers use exceptions such as Quit or
    SwitchWorld for control flow)."""


class _Rec:
    def __init__(self, name):
        self.name = name
        self.on = []            # (index, transform) of every transform this listener is attached to
        self.calls = []         # (property of the callback that fired, argument,
        #                          {index: what that property of transform `index` read inside the callback})
        self.armed = False

    def attach(self, i, t):
        t.add_handler(self)
        self.on.append((i, t))

    def _hit(self, prop, v):
        self.calls.append((prop, v, {i: getattr(t, prop) for i, t in self.on}))
        if self.armed:
            self.armed = False
            raise Boom(self.name)


@desper.event_handler('on_position_change')
class LPos(_Rec):
    listens = ('position',)

    def on_position_change(self, v):
        self._hit('position', v)


@desper.event_handler('on_rotation_change')
class LRot(_Rec):
    listens = ('rotation',)

    def on_rotation_change(self, v):
        self._hit('rotation', v)


@desper.event_handler('on_scale_change')
class LScale(_Rec):
    listens = ('scale',)

    def on_scale_change(self, v):
        self._hit('scale', v)


@desper.event_handler(*EVENTS)
class LAll(_Rec):
    listens = PROPS

    def on_position_change(self, v):
        self._hit('position', v)

    def on_rotation_change(self, v):
        self._hit('rotation', v)

    def on_scale_change(self, v):
        self._hit('scale', v)


# ------------------------------------------------------------------------------------------ values
def draw_vec(sp, dim, label):
    cls = dmath.Vec2 if dim == 2 else dmath.Vec3
    return cls(*[sp.real('%s.%s' % (label, 'xyz'[i])) for i in range(dim)])


def draw_value(sp, dim, prop, label):
    """A value to assign to `prop`: an exact real for the 2D rotation, a vector otherwise."""
    if dim == 2 and prop == 'rotation':
        return sp.real(label)
    return draw_vec(sp, dim, label)


def same_numbers(sp, a, b):
    """a and b are sequences of equal length with (validly) equal entries; SBool or bool."""
    if len(a) != len(b):
        return False
    conds = [x == y for x, y in zip(a, b)]
    if all(isinstance(c, bool) for c in conds):
        return all(conds)
    from symx.proxies import all_of
    return all_of(sp, conds)


def reduced(value):
    """Reference for 'reduced modulo 360': the r in [0, 360) with value = 360 q + r, q integer."""
    return value % 360.


def read_all(transforms):
    return [[getattr(t, p) for p in PROPS] for t in transforms]


def check_same(sp, dim, prop, got, exp, clause, detail):
    if dim == 2 and prop == 'rotation':
        sp.check(got == exp, clause, detail)
    else:
        sp.check(same_numbers(sp, got, exp), clause, detail)


# ------------------------------------------------------------------------------------------ harness
def h_transform(sp, dim=2, L=2, n_tr=2, n_all=1, ctor_bits=False, ranges=True, ctor_ranges=True, boom=False,
                swap=False):
    cls = Transform2D if dim == 2 else Transform3D
    defaults = dict(position=(0,) * dim, rotation=0 if dim == 2 else (0,) * dim, scale=(1,) * dim)

    # ---- every variable of the path is drawn here
    ctor = []
    for i in range(n_tr):
        if ctor_bits:
            given = [bool(sp.flag('T%d.ctor.%s' % (i, p))) for p in PROPS]
        else:
            g = bool(sp.flag('T%d.ctor-values' % i))
            given = [g, g, g]
        kw = {}
        for p, g in zip(PROPS, given):
            if g:
                kw[p] = draw_value(sp, dim, p, 'T%d.ctor.%s' % (i, p))
        ctor.append(kw)
    steps = []
    for k in range(L):
        i = sp.choose(n_tr, 'step%d.transform' % k)
        p = PROPS[sp.choose(3, 'step%d.property' % k)]
        v = draw_value(sp, dim, p, 'step%d.value' % k)
        steps.append((i, p, v))
    # the assignment during which one listener (attached to every transform, all three events) raises from
    # its callback; L = never
    boom_at = sp.choose(L + 1, 'listener-raises-at-step') if boom else L
    # optional split of the real line for the vacuity tags (the checks below are validity checks over
    # all values of the path either way)
    if dim == 2 and ranges:
        for what, v in [('ctor', kw['rotation']) for kw in ctor if 'rotation' in kw and ctor_ranges] + \
                       [('set', v) for (_, p, v) in steps if p == 'rotation']:
            if v < 0:
                sp.cover('%s-rotation-negative' % what)
            elif v >= 360:
                sp.cover('%s-rotation-360-or-more' % what)
            else:
                sp.cover('%s-rotation-in-range' % what)

    # ---- constructors
    transforms = []
    for i, kw in enumerate(ctor):
        sp.note('T%d = %s(%s)' % (i, cls.__name__, ', '.join('%s=%r' % kv for kv in kw.items())))
        try:
            # vectors are handed over as plain tuples (the annotated parameter type)
            t = cls(**{p: (v if dim == 2 and p == 'rotation' else tuple(v)) for p, v in kw.items()})
        except Exception as ex:         # noqa
            sp.fail('ctor-raises', 'constructing T%d raised %r' % (i, ex))
        transforms.append(t)
    for i, (t, kw) in enumerate(zip(transforms, ctor)):
        for p in PROPS:
            got = getattr(t, p)
            if p in kw:
                sp.cover('ctor-value')
                if dim == 2 and p == 'rotation':
                    sp.check(got >= 0, 'ctor-rotation-range', 'T%d.rotation reads below 0 after construction' % i)
                    sp.check(got < 360, 'ctor-rotation-range', 'T%d.rotation reads >= 360 after construction' % i)
                    sp.check(got == reduced(kw[p]), 'ctor-stored',
                             'T%d.rotation after construction is not the given rotation reduced modulo 360' % i)
                else:
                    sp.check(same_numbers(sp, got, kw[p]), 'ctor-stored',
                             'T%d.%s after construction differs from the value given' % (i, p))
            else:
                sp.cover('ctor-default')
                check_same(sp, dim, p, got, defaults[p], 'default-value',
                           'T%d.%s default reads %r' % (i, p, got))
    if n_tr >= 2 and not ctor[0] and not ctor[1]:
        sp.cover('two-default-instances')

    # ---- listeners: per transform one per event + n_all for all events; one on every transform
    listeners = []      # (listener, set of transform indices it is attached to)
    for i, t in enumerate(transforms):
        for lc in (LPos, LRot, LScale) + (LAll,) * n_all:
            li = lc('%s@T%d' % (lc.__name__, i))
            li.attach(i, t)
            listeners.append((li, (i,)))
    shared = LAll('LAll@every')
    raiser = LAll('LAll@every(raising)')
    for li in (shared, raiser) if boom else (shared,):
        for i, t in enumerate(transforms):
            li.attach(i, t)
        listeners.append((li, tuple(range(n_tr))))

    # ---- assignments
    for k, (i, p, v) in enumerate(steps):
        t = transforms[i]
        if swap and k and sp.flag('swap-listener-before-step%d' % k):
            # between two assignments one all-event listener of this transform is removed and a fresh one is
            # registered: the number of listeners of every event is the same as before
            idx = next(j for j, (li, where) in enumerate(listeners) if type(li) is LAll and where == (i,))
            old_li = listeners[idx][0]
            t.remove_handler(old_li)
            old_li.on = []
            listeners[idx] = (old_li, ())
            new_li = LAll('LAll@T%d(registered before step %d)' % (i, k))
            new_li.attach(i, t)
            listeners.append((new_li, (i,)))
            sp.note('T%d: listener %s removed, fresh listener %s registered' % (i, old_li.name, new_li.name))
            sp.cover('listener-swapped')
        before = read_all(transforms)
        counts = [len(li.calls) for li, _ in listeners]
        sp.note('T%d.%s = %r' % (i, p, v))
        raiser.armed = aborted = (k == boom_at)
        try:
            setattr(t, p, v)
            # (whether a listener's exception reaches the assigning statement is the dispatcher's business,
            # C03/C04; here every outcome is accepted)
        except Boom:
            sp.note('   the armed listener raised out of the assignment')
            sp.cover('listener-raised')
        except Exception as ex:         # noqa
            sp.fail('setter-raises', 'step %d: T%d.%s = ... raised %r' % (k, i, p, ex))
        raiser.armed = False
        new = getattr(t, p)
        sp.note('   T%d.%s now reads %r' % (i, p, new))
        # stored
        if dim == 2 and p == 'rotation':
            sp.cover('rotation2d-assigned')
            sp.check(new >= 0, 'stored-rotation-range', 'step %d: T%d.rotation reads below 0' % (k, i))
            sp.check(new < 360, 'stored-rotation-range', 'step %d: T%d.rotation reads >= 360' % (k, i))
            sp.check(new == reduced(v), 'stored',
                     'step %d: T%d.rotation is not the assigned rotation reduced modulo 360' % (k, i))
        else:
            sp.cover('vector-assigned')
            sp.check(new is v or (len(new) == dim and same_numbers(sp, new, v)), 'stored',
                     'step %d: T%d.%s does not read the assigned value' % (k, i, p))
        # notifications
        for (li, where), c0 in zip(listeners, counts):
            fresh = li.calls[c0:]
            want = 1 if (i in where and p in li.listens) else 0
            if aborted and want:
                # a listener raised during this dispatch: the listeners after it are not reached
                sp.check(len(fresh) <= 1, 'notified-exactly-once',
                         'step %d: listener %s was called %d times' % (k, li.name, len(fresh)))
                sp.check(li is not raiser or len(fresh) == 1, 'notified-exactly-once',
                         'step %d: the raising listener was not called' % k)
            else:
                sp.check(len(fresh) == want, 'notified-exactly-once' if want else 'not-notified',
                         'step %d: T%d.%s assigned, listener %s was called %d times (expected %d)' % (
                             k, i, p, li.name, len(fresh), want))
            for via, arg, inside in fresh:
                sp.check(via == p, 'matching-event',
                         'step %d: listener %s was called through on_%s_change' % (k, li.name, via))
                sp.note('   %s.on_%s_change(%r)' % (li.name, via, arg))
                if dim == 2 and p == 'rotation':
                    sp.check(arg == new, 'carried-value',
                             'step %d: listener %s was told a rotation that differs from what '
                             'T%d.rotation reads right afterwards' % (k, li.name, i))
                else:
                    sp.check(arg is new, 'carried-value',
                             'step %d: listener %s did not receive the object T%d.%s reads' % (k, li.name, i, p))
                # what the listener read from the transform while it was being notified
                seen = inside[i]
                sp.note('      inside the callback T%d.%s read %r' % (i, via, seen))
                if dim == 2 and p == 'rotation':
                    sp.check(seen == arg, 'read-inside-callback',
                             'step %d: inside its callback listener %s read a T%d.rotation that differs from the '
                             'value it was being told' % (k, li.name, i))
                else:
                    sp.check(seen is arg, 'read-inside-callback',
                             'step %d: inside its callback listener %s read a T%d.%s that is not the object it was '
                             'being told' % (k, li.name, i, p))
                sp.cover('read-inside-callback')
                sp.cover('listener-called')
        # everything else reads what it read before
        after = read_all(transforms)
        for j in range(n_tr):
            for q, pn in enumerate(PROPS):
                if j == i and pn == p:
                    continue
                check_same(sp, dim, pn, after[j][q], before[j][q], 'others-unchanged',
                           'step %d: T%d.%s = ... changed what T%d.%s reads' % (k, i, p, j, pn))
        if k and steps[k - 1][0] != i:
            sp.cover('other-transform-next')
        if k and steps[k - 1][:2] == (i, p):
            sp.cover('same-property-twice')
    sp.done()


def h_t2d(sp, **kw):
    h_transform(sp, dim=2, **kw)


def h_t3d(sp, **kw):
    h_transform(sp, dim=3, **kw)


_RANGE_TAGS = ['set-rotation-negative', 'set-rotation-360-or-more', 'set-rotation-in-range',
               'ctor-rotation-negative', 'ctor-rotation-360-or-more']
HARNESSES = {
    # nonlinear=True = "a fresh z3 solver per query": the arithmetic is linear (mixed integer/real), but z3's
    # incremental core answers `unknown` on "two remainders of the same real are equal"; the one-shot solver
    # decides it in milliseconds (measured)
    't2d': dict(fn=h_t2d, concolic=True, nonlinear=True,
                nontrivial=['set-rotation-negative', 'set-rotation-360-or-more', 'ctor-rotation-negative',
                            'ctor-rotation-360-or-more', 'same-property-twice', 'other-transform-next'],
                required=_RANGE_TAGS + ['rotation2d-assigned', 'vector-assigned', 'listener-called', 'ctor-value',
                                        'ctor-default', 'two-default-instances', 'same-property-twice',
                                        'other-transform-next']),
    # same harness, longer sequences, no case split on the constructor rotations
    't2d_seq': dict(fn=h_t2d, concolic=True, nonlinear=True,
                    nontrivial=['set-rotation-negative', 'set-rotation-360-or-more', 'same-property-twice',
                                'other-transform-next'],
                    required=_RANGE_TAGS[:3] + ['rotation2d-assigned', 'vector-assigned', 'listener-called',
                                                'ctor-value', 'ctor-default', 'two-default-instances',
                                                'same-property-twice', 'other-transform-next']),
    # same harness with one more all-event listener that raises from its callback during a chosen assignment
    't2d_boom': dict(fn=h_t2d, concolic=True, nonlinear=True,
                     nontrivial=['listener-raised', 'same-property-twice', 'other-transform-next'],
                     required=['rotation2d-assigned', 'vector-assigned', 'listener-called', 'listener-raised',
                               'read-inside-callback', 'ctor-value', 'ctor-default']),
    't3d_boom': dict(fn=h_t3d, concolic=True,
                     nontrivial=['listener-raised', 'same-property-twice', 'other-transform-next'],
                     required=['vector-assigned', 'listener-called', 'listener-raised', 'read-inside-callback',
                               'ctor-value', 'ctor-default']),
    # same harness, constructor-argument combinations in front of a single assignment
    't2d_ctor': dict(fn=h_t2d, concolic=True, nonlinear=True,
                     nontrivial=['set-rotation-negative', 'set-rotation-360-or-more', 'ctor-rotation-negative',
                                 'ctor-rotation-360-or-more'],
                     required=_RANGE_TAGS + ['rotation2d-assigned', 'vector-assigned', 'listener-called',
                                             'ctor-value', 'ctor-default', 'two-default-instances']),
    # same harness; between two assignments a listener may be removed and a fresh one registered (same count)
    't2d_swap': dict(fn=h_t2d, concolic=True, nonlinear=True,
                     nontrivial=['listener-swapped', 'same-property-twice'],
                     required=['rotation2d-assigned', 'vector-assigned', 'listener-called', 'listener-swapped',
                               'same-property-twice']),
    't3d_swap': dict(fn=h_t3d, concolic=True,
                     nontrivial=['listener-swapped', 'same-property-twice'],
                     required=['vector-assigned', 'listener-called', 'listener-swapped', 'same-property-twice']),
    't3d': dict(fn=h_t3d, concolic=True,
                nontrivial=['same-property-twice', 'other-transform-next', 'ctor-value'],
                required=['vector-assigned', 'listener-called', 'ctor-value', 'ctor-default',
                          'two-default-instances', 'same-property-twice', 'other-transform-next']),
}

TIERS = {
    'quick': [
        ('t2d', dict(L=2, n_tr=2, n_all=1)),
        ('t3d', dict(L=2, n_tr=2, n_all=1)),
        ('t2d_boom', dict(L=2, n_tr=2, n_all=1, boom=True, ranges=False)),
        ('t3d_boom', dict(L=2, n_tr=2, n_all=1, boom=True)),
        ('t2d_swap', dict(L=2, n_tr=1, n_all=2, swap=True, ranges=False)),
        ('t3d_swap', dict(L=2, n_tr=1, n_all=2, swap=True)),
    ],
    'thorough': [
        ('t2d_swap', dict(L=3, n_tr=2, n_all=2, swap=True, ranges=False)),
        ('t3d_swap', dict(L=3, n_tr=1, n_all=2, swap=True)),
        ('t2d_seq', dict(L=3, n_tr=2, n_all=2, ctor_ranges=False)),
        ('t2d_ctor', dict(L=1, n_tr=2, n_all=1, ctor_bits=True)),
        ('t2d', dict(L=2, n_tr=2, n_all=1)),
        ('t2d_seq', dict(L=2, n_tr=3, n_all=1, ctor_ranges=False)),
        ('t3d', dict(L=3, n_tr=2, n_all=2, ctor_bits=True)),
        ('t3d', dict(L=2, n_tr=3, n_all=1)),
        ('t2d_boom', dict(L=2, n_tr=2, n_all=1, boom=True, ranges=False)),
        ('t2d_boom', dict(L=3, n_tr=2, n_all=1, boom=True, ranges=False)),
        ('t3d_boom', dict(L=3, n_tr=2, n_all=1, boom=True)),
    ],
}
BUDGET_S = {'quick': 120, 'thorough': 900}

EXPLANATION = (
    'Bounded symbolic execution of the real Transform2D/Transform3D constructors and setters with real '
    'EventDispatcher listeners.  Which transform and which property every assignment of the sequence targets '
    'are solver choices; every assigned 2D rotation and every vector entry is an exact real solver variable, '
    'so each path covers all real values at once (the 2D setter\'s `value % 360.` becomes value = 360q + r, '
    '0 <= r < 360, q integer).  After each assignment the harness asks z3 for the validity of "the listener\'s '
    'argument equals what the property getter returns now" and counts the calls of every listener of every '
    'transform.')
RULE = ('one evaluation = one feasible path (constructor arguments given or defaulted, sequence of '
        '(transform, property) targets, sign/range class of every 2D rotation); non-trivial = the path assigns '
        'a 2D rotation outside [0, 360), assigns the same property twice, or switches to another transform')
BOUNDS = {
    'quick': '2 transforms, each default-constructed or with three symbolic constructor values; 6 listeners per '
             'transform (one per event, one for all events, one shared by all transforms); every sequence of 2 '
             'assignments; values unbounded reals; both for Transform2D and Transform3D; the same again with an '
             'additional listener raising during assignment 0, 1 or never; swap entries: 1 transform with 4 listeners per event, 2 assignments, '
             'optionally one listener removed and a fresh one registered between them',
    'thorough': 'Transform2D: every sequence of 3 assignments on 2 transforms (2 all-event listeners each); 1 assignment '
                'with each constructor argument separately given or defaulted; every sequence of 2 assignments on 3 '
                'transforms.  Transform3D: 3 assignments on 2 transforms with separate constructor bits; 2 assignments '
                'on 3 transforms.  Raising listener: during any one or none of 2 (2D) and of 3 (2D, 3D) assignments.  '
                'Values unbounded reals; every path re-run concretely on its model',
}
ASSUMPTIONS = [
    'rotation values are exact reals: `%` is the mathematical remainder in [0, 360); float rounding of `%` is not modelled',
    '"the very value a read returns" is read as object identity for vector values and as numeric equality for the '
    '2D rotation (where the stored value is by definition a reduced copy)',
    '"default values are not shared between instances" is checked behaviourally: both default instances read the '
    'documented defaults and an assignment on one transform never changes what another transform reads; sharing '
    'of the immutable default Vec objects themselves would be harmless and is not reported',
    '"the very value a read of the property returns right afterwards" includes a read made by the listener from '
    'inside its callback, and holds for the listeners reached before another listener raised (the assignment '
    '"stores the value" whether or not a listener raises); the number of listeners reached after a raise is open',
    'constructor vectors are passed as plain tuples and compared entry by entry with what the property reads',
    'listeners are ordinary strongly referenced handler objects; dispatching stays enabled (C03/C04 cover the rest)',
]
OUTSIDE = ['sequences longer than the bound, more than 3 transforms', 'non-finite floats (nan % 360 is nan)',
           'floating-point rounding inside value % 360.', 'listeners that assign to a transform from inside a callback',
           'more than one raising listener per sequence']

TECHNIQUE = 'bounded symbolic execution with symbolic real rotations/vectors (z3 mixed integer/real arithmetic for % 360), validity checks, concolic cross-check'
