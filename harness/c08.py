"""C08 — Coroutines advance one step per frame and wake exactly on time.

Shape: schedules.  n coroutines, each with a symbolic start frame and a yield script whose items are
`None` or a real-valued wait of any sign; F frames with real dt >= 0.  The bodies are plain generator
functions of this module that log (frame, coroutine, step) and yield the scripted value.  The real
CoroutineProcessor runs on the proxies, so `self._timer += dt`, `wait + self._timer`,
`self._timer >= wait_time`, `wait > 0` and the heap ordering of `_WaitingGenerator` are z3 decisions
over linear real arithmetic.

Oracle: an independent per-coroutine model read off the property statement.  Which coroutine stepped in
which frame is a concrete fact on every path (the log); the oracle states the *validity*, under the path
condition, of the real-valued (in)equalities that make this log the only admissible one.
"""
from desper.logic.coroutines import CoroutineProcessor

from symx.proxies import all_of, any_of
from harness.hf_util import NOT, pin_reals_to_grid

PROPERTY = 'C08'


def h_timing(sp, n=2, Y=2, F=4, ordered_starts=False):
    proc = CoroutineProcessor()
    dts = [sp.real('dt%d' % f, lo=0) for f in range(F)]
    starts, scripts = [], []
    for c in range(n):
        lo = starts[-1] if (ordered_starts and starts) else 0
        starts.append(lo + sp.choose(F - lo, 'start%d' % c))
        ny = sp.choose(Y + 1, 'yields%d' % c)
        script = []
        for k in range(ny):
            if sp.choose(2, 'kind%d.%d' % (c, k)):
                script.append(sp.real('w%d.%d' % (c, k)))
            else:
                script.append(None)
        scripts.append(script)
        sp.note('coroutine %d: started before frame %d, yields %s' % (
            c, starts[c], [('None' if w is None else 'w%d.%d' % (c, k)) for k, w in enumerate(script)]))

    now = [None]
    log = []                    # (frame, coroutine, step) in execution order

    def body(c, script):
        for k, w in enumerate(script):
            log.append((now[0], c, k))
            yield w
        log.append((now[0], c, len(script)))
        return c

    for f in range(F):
        for c in range(n):
            if starts[c] == f:
                proc.start(body(c, scripts[c]))
        now[0] = f
        try:
            proc.process(dts[f])
        except Exception as ex:     # noqa  (engine control flow is BaseException)
            sp.fail('process-raises', 'frame %d: process raised %r' % (f, ex))
        now[0] = None
        sp.note('frame %d ran %s' % (f, [(c, k) for (g, c, k) in log if g == f]))

    # ------------------------------------------------------------------ oracle
    def acc(f, h):
        """dt accumulated after frame f up to and including frame h."""
        s = dts[f + 1]
        for j in range(f + 2, h + 1):
            s = s + dts[j]
        return s

    frames_of = []
    for c in range(n):
        seen = [(g, k) for (g, cc, k) in log if cc == c]
        sp.check([k for _, k in seen] == list(range(len(seen))), 'step-order',
                 'coroutine %d executed steps %r' % (c, seen))
        fr = [g for g, _ in seen]
        frames_of.append(fr)
        sp.check(all(b > a for a, b in zip(fr, fr[1:])), 'one-step-per-frame',
                 'coroutine %d was advanced more than once in one process call: frames %r' % (c, fr))
        sp.check(len(fr) >= 1 and fr[0] == starts[c], 'first-step',
                 'coroutine %d started before frame %d, first advanced in %r' % (c, starts[c], fr[:1]))
        script = scripts[c]
        for k, f in enumerate(fr):
            if k >= len(script):
                sp.check(k == len(script) and len(fr) == k + 1, 'runs-after-return',
                         'coroutine %d advanced after its generator returned' % c)
                break
            w = script[k]
            g = fr[k + 1] if k + 1 < len(fr) else None
            what = 'coroutine %d step %d (frame %d, yields %s)' % (c, k, f, 'None' if w is None else 'a number')
            if w is None:
                if f + 1 < F:
                    sp.check(g == f + 1, 'next-frame', '%s: next advanced in frame %r, not in the next one' % (what, g))
                continue
            if g is None:
                if f + 1 < F:
                    sp.check(all_of(sp, [w > 0, acc(f, F - 1) < w]), 'wake-late',
                             '%s: never advanced again although the accumulated dt reaches the wait' % what,
                             coroutine=c, step=k)
                    sp.cover('still-waiting-at-end')
                continue
            if g == f + 1:
                # either "next frame" (w <= 0) or a wait that the very next dt already covers
                sp.check(any_of(sp, [NOT(w > 0), acc(f, g) >= w]), 'wake-early',
                         '%s: advanced again in frame %d before the wait elapsed' % (what, g), coroutine=c, step=k)
                sp.cover('number-next-frame')
            else:
                sp.check(acc(f, g) >= w, 'wake-early',
                         '%s: advanced again in frame %d before the wait elapsed' % (what, g), coroutine=c, step=k)
                sp.check(all_of(sp, [w > 0] + [acc(f, h) < w for h in range(f + 1, g)]), 'wake-late',
                         '%s: advanced again only in frame %d, the wait had elapsed earlier '
                         '(or the yield was not positive)' % (what, g), coroutine=c, step=k)
                sp.cover('waited')
                if g > f + 2:
                    sp.cover('waited-3-frames')

    # relative order of coroutines that stay runnable is preserved from frame to frame
    for f in range(F - 1):
        cur = [(c, k) for (g, c, k) in log if g == f]
        nxt = [c for (g, c, k) in log if g == f + 1]
        for i in range(len(cur)):
            for j in range(i + 1, len(cur)):
                (a, ka), (b, kb) = cur[i], cur[j]
                if a in nxt and b in nxt:
                    sp.cover('pair-two-frames')
                    if nxt.index(a) > nxt.index(b):
                        wa = scripts[a][ka] if ka < len(scripts[a]) else None
                        wb = scripts[b][kb] if kb < len(scripts[b]) else None
                        waited = [w > 0 for w in (wa, wb) if w is not None]
                        sp.check(any_of(sp, waited) if waited else False, 'order',
                                 'frames %d->%d: coroutines %d and %d both stayed runnable but swapped order' % (
                                     f, f + 1, a, b))
                        sp.cover('order-changed-by-wait')

    # overlap of waits (the shared timer is the point of the property)
    waits = []
    for c in range(n):
        fr = frames_of[c]
        for k, f in enumerate(fr):
            if k < len(scripts[c]) and scripts[c][k] is not None:
                g = fr[k + 1] if k + 1 < len(fr) else F
                if g > f + 1:
                    waits.append((c, f, g))
    for i in range(len(waits)):
        for j in range(i + 1, len(waits)):
            (a, fa, ga), (b, fb, gb) = waits[i], waits[j]
            if a != b and fa < gb - 1 and fb < ga - 1:
                sp.cover('overlapping-waits')
                if fa != fb:
                    sp.cover('overlapping-waits-staggered')
                if ga == gb and ga < F:
                    sp.cover('two-wake-same-frame')
    pin_reals_to_grid(sp, dts + [w for script in scripts for w in script if w is not None])
    sp.done()


_TAGS = ['waited', 'number-next-frame', 'still-waiting-at-end', 'overlapping-waits',
         'overlapping-waits-staggered', 'two-wake-same-frame', 'pair-two-frames', 'order-changed-by-wait']

HARNESSES = {
    'timing': dict(fn=h_timing, nontrivial=_TAGS, required=_TAGS, nonlinear=False, concolic=True),
}

TIERS = {
    'quick': [
        ('timing', dict(n=2, Y=2, F=4)),
        ('timing', dict(n=3, Y=1, F=3)),
    ],
    # ordered_starts: coroutines are interchangeable (same script space, same-frame starts happen in index
    # order and every assignment of scripts to indices is explored), so start frames are drawn non-decreasing.
    # (2,3,5) contains every schedule of (2,<=3,<=5); (2,2,6) adds a sixth frame; (3,1,5) and (3,2,3) three
    # simultaneous waiters (heap with three entries).
    'thorough': [
        ('timing', dict(n=2, Y=3, F=5, ordered_starts=True)),
        ('timing', dict(n=2, Y=2, F=6, ordered_starts=True)),
        ('timing', dict(n=3, Y=1, F=5, ordered_starts=True)),
        ('timing', dict(n=3, Y=2, F=3, ordered_starts=True)),
    ],
}
BUDGET_S = {'quick': 120, 'thorough': 1500}

EXPLANATION = (
    'Bounded symbolic execution of the real CoroutineProcessor.start/process on exact reals: every dt (>= 0) and '
    'every yielded wait (any sign) is a z3 Real, start frames and yield shapes (None / number) are solver-chosen '
    'finite variables.  The timer arithmetic, the deadline comparison, `wait > 0` and the heap ordering of the '
    'waiting records are decided by z3 (linear real arithmetic), forking whenever both outcomes are feasible, so '
    'each path stands for a whole polyhedron of schedules, ties and exactly-on-deadline cases included.  On every '
    'path the log of executed body steps is compared with an independent per-coroutine model; the model\'s '
    'inequalities (accumulated dt reaches / does not reach the wait) must be VALID under the path condition.  '
    'The explorer certifies that no feasible path inside the bounds was skipped; in the thorough tier every path '
    'is additionally re-run concretely on a model of its path condition (concolic cross-check of the proxies).')
RULE = ('one evaluation = one feasible path (a distinct order/sign pattern of the real-valued comparisons plus '
        'the finite choices); non-trivial = a wait spanned more than one frame, a number meant "next frame", a '
        'coroutine was still waiting at the end, waits of two coroutines overlapped, two woke in one frame, or the '
        'relative order of two runnable coroutines was observed over two frames')
BOUNDS = {
    'quick': 'n=2 coroutines, <=2 yields each, F=4 frames; n=3, <=1 yield, F=3; start frame of each coroutine '
             'anywhere in 0..F-1; dt and waits unbounded reals',
    'thorough': '(n=2, <=3 yields, F=5), (n=2, <=2 yields, F=6), (n=3, <=1 yield, F=5), (n=3, <=2 yields, F=3); '
                'start frames non-decreasing in the coroutine index (symmetry reduction); dt and waits '
                'unbounded reals; every path cross-checked concretely',
}
ASSUMPTIONS = [
    'a coroutine started between process call f-1 and f is first advanced in call f',
    'only the relative order of coroutines that stay runnable is constrained; where a newly started or newly woken '
    'coroutine is placed relative to the others is left open by the statement and not checked',
    'starts are issued between process calls; nothing is killed (lifecycle is C09)',
    'the claim is over exact real arithmetic (the statement restricts itself to exactly representable values); '
    'counterexamples and concolic runs use values on the dyadic grid k/1024 so that the float run is exact',
    'helper pin_reals_to_grid: after all oracle checks the path is pinned to one grid point (verified by a fresh '
    'solver to satisfy the whole path condition) so that the engine\'s model extraction does not need a mixed '
    'Int/Real query',
]
OUTSIDE = ['float rounding of timer sums', 'more coroutines, yields or frames than the bounds',
           'coroutines started from inside other coroutines (C09)', 'non-numeric yield values']

TECHNIQUE = 'bounded symbolic execution with real-valued dt and waits (z3 LRA): wake-up frames checked as validity of linear inequalities, concolic cross-check'
