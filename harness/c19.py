"""C19 — controllers, references and prototypes are faithful shorthands.

twin:   two worlds built identically from symbolic presence/dead bits; an operation is applied through the
        Controller shorthand / reference descriptor on one and through the plain World call on the other;
        results and the complete observable state must coincide.
proto:  Prototype subclasses generated from symbolic recipe bits (per listed type: entry in init_methods,
        init method present, custom prefix, subclass overrides).
update: OnUpdateProcessor relays the identical (symbolic) dt once to every on_update listener.
"""
import desper
from desper.logic.world import World

PROPERTY = 'C19'


class Comp:
    def __init__(self, tag=None):
        self.tag = tag


class A(Comp):
    pass


class B(A):
    pass


class C(B):
    """third class of the chain A <- B <- C"""


class X(Comp):
    pass


class PA(desper.Processor):
    def __init__(self, tag=None):
        self.tag = tag

    def process(self, dt):
        pass


class PB(PA):
    priority = 2


class PC(PB):
    """third class of the chain PA <- PB <- PC"""


class Ctl(desper.Controller):
    ref_a = desper.ComponentReference(A)
    ref_b = desper.ComponentReference(B)
    ref_x = desper.ComponentReference(X)
    proc_a = desper.ProcessorReference(PA)
    proc_b = desper.ProcessorReference(PB)

    def __init__(self, tag=None):
        self.tag = tag


TYPES = [A, B, X]
DEFAULT_IDS = [1, 2]
IDS = list(DEFAULT_IDS)      # rebound by h_twin(ids=...) at the start of every path
QTYPES = [A, B, X, Ctl]


def view(obj):
    """Mirror-independent description of a result."""
    if obj is None or isinstance(obj, bool):
        return obj
    if isinstance(obj, tuple):
        return tuple(view(o) for o in obj)
    return (type(obj).__name__, getattr(obj, 'tag', '?'))


def snapshot(w):
    s = {}
    for T in QTYPES:
        s['get', T.__name__] = sorted((repr(e), view(c)) for e, c in w.get(T))
    for e in IDS + [3]:
        s['comps', e] = sorted(view(c) for c in w.get_components(e))
        s['exists', e] = w.entity_exists(e)
        for T in QTYPES:
            s['has', e, T.__name__] = w.has_component(e, T)
            s['getc', e, T.__name__] = view(w.get_component(e, T))
    s['entities'] = sorted(repr(e) for e in w.entities)
    s['procs'] = [view(p) for p in w.processors]
    return s


def build(sp_choices):
    """Build one world from already drawn concrete choices."""
    w = World()
    bits, dead, procs, ce, detached = sp_choices[:5]
    moved = len(sp_choices) > 5 and sp_choices[5]
    for (e, T), b in bits.items():
        if b:
            w.add_component(e, T(tag='%s%r' % (T.__name__, e)))
    ctl = Ctl(tag='ctl')
    if moved:
        # the controller belonged to another entity before: attached there, removed, then attached to `ce`
        other = [x for x in IDS if x != ce][0]
        had = w.get_component(other, Ctl)
        w.add_component(other, ctl)
        w.remove_component(other, Ctl)
        assert had is None
    w.add_component(ce, ctl)
    if procs[0]:
        w.add_processor(PA(tag='pa'))
    if procs[1]:
        w.add_processor(PB(tag='pb'))
    if detached:
        # the controller stops being a component of its entity but keeps knowing entity and world
        w.remove_component(ce, Ctl)
    for i, e in enumerate(IDS):
        if dead[i] and w.get_components(e):
            w.delete_entity(e)
    return w, ctl


def apply(op, T, w, ctl, e, via, newtag):
    """Run operation `op` through the shorthand (via=True) or the plain World call; returns the result view or
    ('raised', exception type name)."""
    try:
        if op == 'add_component':
            c = T(tag=newtag)
            r = ctl.add_component(c) if via else w.add_component(e, c)
        elif op == 'remove_component':
            r = ctl.remove_component(T) if via else w.remove_component(e, T)
        elif op == 'has_component':
            r = ctl.has_component(T) if via else w.has_component(e, T)
        elif op == 'get_component':
            r = ctl.get_component(T) if via else w.get_component(e, T)
        elif op == 'get_components':
            r = ctl.get_components() if via else w.get_components(e)
        elif op == 'delete':
            r = ctl.delete() if via else w.delete_entity(e)
        elif op == 'ref-get':
            name = {A: 'ref_a', B: 'ref_b', X: 'ref_x'}[T]
            r = getattr(ctl, name) if via else w.get_component(e, T)
        elif op == 'ref-set':
            name = {A: 'ref_a', B: 'ref_b', X: 'ref_x'}[T]
            c = T(tag=newtag)
            r = setattr(ctl, name, c) if via else w.add_component(e, c)
        elif op == 'ref-set-sub':      # a B assigned through the A reference
            c = B(tag=newtag)
            r = setattr(ctl, 'ref_a', c) if via else w.add_component(e, c)
        elif op == 'ref-set-subsub':   # a C (two levels below A) assigned through the A reference
            c = C(tag=newtag)
            r = setattr(ctl, 'ref_a', c) if via else w.add_component(e, c)
        elif op == 'ref-del':
            name = {A: 'ref_a', B: 'ref_b', X: 'ref_x'}[T]
            if via:
                r = delattr(ctl, name)
            else:
                w.remove_component(e, T)
                r = None
        elif op == 'proc-get':
            r = getattr(ctl, T) if via else w.get_processor({'proc_a': PA, 'proc_b': PB}[T])
        elif op == 'proc-set':
            P = {'proc_a': PA, 'proc_b': PB}[T]
            p = P(tag=newtag)
            r = setattr(ctl, T, p) if via else w.add_processor(p)
        elif op == 'proc-set-sub':
            p = PB(tag=newtag)
            r = setattr(ctl, 'proc_a', p) if via else w.add_processor(p)
        elif op == 'proc-set-subsub':
            p = PC(tag=newtag)
            r = setattr(ctl, 'proc_a', p) if via else w.add_processor(p)
        elif op == 'proc-del':
            P = {'proc_a': PA, 'proc_b': PB}[T]
            if via:
                r = delattr(ctl, T)
            else:
                w.remove_processor(P)
                r = None
        else:
            raise AssertionError(op)
        return view(r)
    except Exception as ex:     # noqa
        return ('raised', type(ex).__name__)


COMP_OPS = ['add_component', 'remove_component', 'has_component', 'get_component', 'ref-get', 'ref-set', 'ref-del']
NULLARY_BASE = ['get_components', 'delete', 'ref-set-sub', 'proc-set-sub']
NULLARY = NULLARY_BASE + ['ref-set-subsub', 'proc-set-subsub']     # grandchild instances (deep_sub entries)
PROC_OPS = ['proc-get', 'proc-set', 'proc-del']


DIRECT = ['direct-remove-PA', 'direct-remove-PB', 'direct-add-PA', 'direct-add-PB']
DIRECT_COMPS = ['direct-remove-A', 'direct-remove-B', 'direct-add-A', 'direct-add-B']
FOCUS_COMP_OPS = ['ref-get', 'ref-set', 'ref-del', 'get_component', 'has_component']


def apply_direct(op, w, tag, e=None):
    """an operation issued through the World itself, identically in both worlds (not through the shorthand)"""
    if op == 'direct-remove-PA':
        w.remove_processor(PA)
    elif op == 'direct-remove-PB':
        w.remove_processor(PB)
    elif op == 'direct-add-PA':
        w.add_processor(PA(tag=tag))
    elif op == 'direct-add-PB':
        w.add_processor(PB(tag=tag))
    elif op == 'direct-remove-A':
        w.remove_component(e, A)
    elif op == 'direct-remove-B':
        w.remove_component(e, B)
    elif op == 'direct-add-A':
        w.add_component(e, A(tag=tag))
    elif op == 'direct-add-B':
        w.add_component(e, B(tag=tag))


def h_twin(sp, steps=1, second_types=3, focus=None, ids=None, deep_sub=True):
    global IDS
    IDS = list(ids) if ids else list(DEFAULT_IDS)
    if ids:
        sp.cover('unusual-ids')
    bits = {}
    for e in IDS:
        for T in (TYPES if e == IDS[0] else TYPES[:second_types]):
            if focus is None or (focus == 'comps' and e == IDS[0] and T is not X):
                bits[e, T] = bool(sp.flag('has[%r,%s]' % (e, T.__name__)))
            else:
                bits[e, T] = False
    dead = [focus is None and any(b for (e2, _), b in bits.items() if e2 == e) and bool(sp.flag('dead%r' % (e,)))
            for e in IDS]
    procs = [focus != 'comps' and bool(sp.flag('proc%d' % i)) for i in range(2)]
    ce = sp.pick(IDS, 'controller-entity') if focus is None else IDS[0]
    detached = bool(sp.flag('controller-detached')) if focus is None else False
    if detached:
        sp.cover('detached-controller')
        if not any(b for (e2, _), b in bits.items() if e2 == ce):
            sp.cover('controller-of-empty-entity')
    moved = focus is None and not detached and bool(sp.flag('controller-moved'))
    if moved:
        sp.cover('moved-controller')
    choices = (bits, dead, procs, ce, detached, moved)
    w1, c1 = build(choices)     # plain World calls
    w2, c2 = build(choices)     # shorthands
    sp.note('built: bits=%s dead=%s procs=%s controller on %r%s' % (
        {'%s%r' % (T.__name__, e): b for (e, T), b in bits.items()}, dead, procs, ce, ' (then detached)' if detached else ''))
    sp.check(c2.entity == ce and c2.world is w2, 'controller-knows-owner',
             'controller.entity=%r world ok=%s, real owner %r' % (c2.entity, c2.world is w2, ce))
    sp.check(snapshot(w1) == snapshot(w2), 'twin-build', 'twin worlds differ after building')
    for step in range(steps):
        if focus is None:
            kind = sp.choose(3, 'kind%d' % step)
        elif focus == 'procs':
            kind = 2 + sp.choose(2, 'kind%d' % step)
        else:       # 'comps': a reference / query shorthand, or the same plain World call on the controller's entity in both worlds
            kind = (4, 1, 3)[sp.choose(3, 'kind%d' % step)]
        if kind == 3:
            op = sp.pick(DIRECT if focus != 'comps' else DIRECT_COMPS, 'op%d' % step)
            sp.note('%s (plain World call in both worlds)' % op)
            apply_direct(op, w1, 'd%d' % step, ce)
            apply_direct(op, w2, 'd%d' % step, ce)
            sp.cover('direct-world-op')
            sp.check(snapshot(w1) == snapshot(w2), 'effect', 'worlds differ after the same direct World call')
            continue
        if kind == 0:
            op = sp.pick(COMP_OPS, 'op%d' % step)
            T = sp.pick(TYPES, 't%d' % step)
        elif kind == 4:
            op = sp.pick(FOCUS_COMP_OPS, 'op%d' % step)
            T = sp.pick([A, B], 't%d' % step)
        elif kind == 1:
            op = sp.pick(NULLARY if deep_sub else NULLARY_BASE, 'op%d' % step) if focus != 'comps' else 'ref-set-sub'
            T = None
        else:
            op = sp.pick(PROC_OPS, 'op%d' % step)
            T = sp.pick(['proc_a', 'proc_b'], 't%d' % step)
        tag = 'new%d' % step
        sp.note('%s(%s)' % (op, getattr(T, '__name__', T)))
        r1 = apply(op, T, w1, c1, ce, False, tag)
        r2 = apply(op, T, w2, c2, ce, True, tag)
        sp.cover(op)
        if isinstance(r1, tuple) and r1 and r1[0] == 'raised':
            sp.cover('raises')
        sp.check(r1 == r2, 'result', '%s: World call gave %r, shorthand gave %r' % (op, r1, r2))
        s1, s2 = snapshot(w1), snapshot(w2)
        if s1 != s2:
            diff = [k for k in s1 if s1[k] != s2[k]]
            sp.fail('effect', '%s: worlds differ afterwards at %r: %r vs %r' % (op, diff[0], s1[diff[0]], s2[diff[0]]))
    outcomes = []
    for w in (w1, w2):
        try:
            w.process(1)
            outcomes.append('ok')
        except Exception as ex:     # noqa  (eg. the documented KeyError for deleting an id that owns nothing)
            outcomes.append(type(ex).__name__)
    sp.check(outcomes[0] == outcomes[1], 'effect', 'final process(): World-call world %s, shorthand world %s' % tuple(outcomes))
    sp.check(snapshot(w1) == snapshot(w2), 'effect', 'worlds differ after a final process()')
    # the free-standing builder
    k = desper.controller(ce, w2)
    sp.check(k.entity == ce and k.world is w2 and isinstance(k, desper.Controller), 'controller-builder',
             'desper.controller() does not know its entity/world')
    sp.done()


# ------------------------------------------------------------------------------------------------ prototypes
class K(object):
    def __init__(self, source='default', via=None, owner=None):
        self.source = source
        self.via = via
        self.owner = owner      # serial number of the Prototype instance whose method built it (methods only)


def h_proto(sp, n_types=3, same_name=True, falsy=True, extra_levels=2):
    n = 1 + sp.choose(n_types, 'n-types')
    kinds = []
    for i in range(n):
        name = 'K%d' % i
        if same_name and i > 0 and sp.flag('same-name%d' % i):
            name = 'K0'                     # same class name, different class
            sp.cover('name-clash')
        if i > 0 and sp.flag('listed-again%d' % i):
            kinds.append(kinds[0])          # the same type listed twice
            sp.cover('type-listed-twice')
            continue
        kinds.append(type(name, (K,), {}))
    custom_prefix = bool(sp.flag('custom-prefix'))
    prefix = 'make_' if custom_prefix else 'init_'
    base_ns = {'component_types': tuple(kinds)}
    if custom_prefix:
        base_ns['init_prefix'] = prefix
    sub_ns = {}
    use_sub = bool(sp.flag('subclass'))
    expect = {}         # index -> (source, via)
    init_methods = {}
    sub_init_methods = None
    if use_sub and sp.flag('sub-redefines-init_methods'):
        sub_init_methods = {}
        sp.cover('sub-init_methods')

    def mk_method(label):
        def method(self, t):
            return t(source='method', via=label, owner=getattr(self, 'serial', None))
        return method

    falsy_entries = falsy and bool(sp.flag('falsy-dict-entries'))

    class FalsyCallable:
        """a callable init_methods entry whose truth value is False (eg. an empty component pool with __len__)"""

        def __init__(self, label):
            self.label = label

        def __call__(self, t):
            return t(source='dict', via=self.label)

        def __len__(self):
            return 0

    def mk_func(label):
        if falsy_entries:
            sp.cover('falsy-dict-entry')
            return FalsyCallable(label)

        def func(t):
            return t(source='dict', via=label)
        func.label = label
        return func

    names_done = {}
    for i, t in enumerate(kinds):
        in_dict = bool(sp.flag('dict%d' % i))
        has_method = bool(sp.flag('method%d' % i))
        wrong_prefix_method = bool(sp.flag('other-prefix-method%d' % i))
        sub_method = use_sub and bool(sp.flag('sub-method%d' % i))
        sub_dict = sub_init_methods is not None and bool(sp.flag('sub-dict%d' % i))
        if in_dict:
            init_methods[t] = mk_func('base-dict%d' % i)
        if sub_dict:
            sub_init_methods[t] = mk_func('sub-dict%d' % i)
        mname = prefix + t.__name__
        if has_method and mname not in base_ns:
            base_ns[mname] = mk_method('base-' + mname)
        if wrong_prefix_method:
            other = ('init_' if custom_prefix else 'make_') + t.__name__
            base_ns.setdefault(other, mk_method('WRONG-' + other))
        if sub_method and mname not in sub_ns:
            sub_ns[mname] = mk_method('sub-' + mname)
    if init_methods or sp.flag('define-empty-init_methods'):
        base_ns['init_methods'] = init_methods
    if sub_init_methods is not None:
        sub_ns['init_methods'] = sub_init_methods
    Base = type('Proto', (desper.Prototype,), base_ns)
    cls = type('SubProto', (Base,), sub_ns) if use_sub else Base
    # further empty levels below: the chain Proto <- SubProto <- Deeper1 (<- Deeper2) inherits everything unchanged
    for lvl in range(sp.choose(extra_levels + 1, 'extra-empty-levels') if extra_levels else 0):
        cls = type('Deeper%d' % (lvl + 1), (cls,), {})
        sp.cover('prototype-chain-depth-3' if use_sub else 'prototype-chain-depth-2')
    # expected resolution, straight from the statement
    eff_dict = sub_init_methods if sub_init_methods is not None else base_ns.get('init_methods', {})
    for i, t in enumerate(kinds):
        mname = prefix + t.__name__
        if t in eff_dict:
            expect[i] = ('dict', eff_dict[t].label)     # (a type listed twice shares one entry)
            sp.cover('from-dict')
        elif mname in sub_ns:
            expect[i] = ('method', 'sub-' + mname)
            sp.cover('from-sub-method')
        elif mname in base_ns:
            expect[i] = ('method', 'base-' + mname)
            sp.cover('from-method')
        else:
            expect[i] = ('default', None)
            sp.cover('from-default')
    proto = cls()
    proto.serial = 1
    proto2 = cls()              # a second instance of the same Prototype class, used after the first
    proto2.serial = 2
    try:
        first = list(proto)
        second = list(proto)
        third = list(proto2)
    except Exception as ex:     # noqa
        sp.fail('op-raises', 'iterating the prototype raised %r' % (ex,))
    for serial, run in ((1, first), (1, second), (2, third)):
        for i, c in enumerate(run):
            if c.source == 'method':
                sp.check(c.owner == serial, 'proto-instance',
                         'component %d of prototype instance %d was built by a method bound to instance %r' % (i, serial, c.owner))
                if serial == 2:
                    sp.cover('second-instance-method')
    sp.note('types=%s prefix=%s sub=%s expect=%s' % ([t.__name__ for t in kinds], prefix, use_sub, expect))
    for run in (first, second, third):
        sp.check(len(run) == len(kinds), 'proto-count', 'prototype yielded %d components for %d types' % (len(run), len(kinds)))
        for i, (c, t) in enumerate(zip(run, kinds)):
            sp.check(type(c) is t, 'proto-type', 'component %d has type %s, listed %s' % (i, type(c).__name__, t.__name__))
            sp.check((c.source, c.via) == expect[i], 'proto-source',
                     'component %d built by %r, expected %r' % (i, (c.source, c.via), expect[i]))
    sp.check(not any(a is b for a in first for b in second) and len({id(c) for c in first}) == len(first),
             'proto-fresh', 'iterating twice did not yield fresh components')
    # usable with create_entity
    w = World()
    e = w.create_entity(*proto)
    if len(set(kinds)) == len(kinds):      # (two components of one type in one create_entity call: outside C01's claim)
        sp.check(len(w.get_components(e)) == len(kinds), 'proto-create', 'create_entity(*prototype) lost components')
    sp.done()


# ------------------------------------------------------------------------------------------------ on_update
@desper.event_handler('on_update')
class Listener:
    def __init__(self):
        self.got = []

    def on_update(self, dt):
        self.got.append(dt)


@desper.event_handler(on_update='tick')
class Listener2:
    def __init__(self):
        self.got = []

    def tick(self, dt):
        self.got.append(dt)


class LateProc(desper.Processor):
    def __init__(self):
        self.calls = []

    def process(self, dt):
        self.calls.append(dt)


@desper.event_handler('on_update')
class Adder:
    """an on_update listener that, the first time it is told, registers one more processor in its world"""

    def __init__(self, world, priority):
        self.got = []
        self.world_ = world
        self.priority = priority
        self.added = None

    def on_update(self, dt):
        self.got.append(dt)
        if self.added is None:
            self.added = LateProc()
            if self.priority is None:
                self.world_.add_processor(self.added)
            else:
                self.world_.add_processor(self.added, priority=self.priority)


class UpdateBoom(Exception):
    pass


@desper.event_handler('on_update')
class Raiser:
    """an on_update listener that raises in exactly one frame (after recording the dt)"""

    def __init__(self, frame):
        self.got = []
        self.frame = frame

    def on_update(self, dt):
        self.got.append(dt)
        if len(self.got) - 1 == self.frame:
            raise UpdateBoom('listener failed in frame %d' % self.frame)


def h_update(sp, max_listeners=3, frames=2, adder=False, raiser=False):
    w = World()
    w.add_processor(desper.OnUpdateProcessor())
    boom = None
    if raiser:
        boom = Raiser(sp.choose(frames, 'raising-frame'))
        w.create_entity(boom)
    n = sp.choose(max_listeners + 1, 'n-listeners')
    ls = []
    if adder:
        # the priority of the processor added from inside the callback is an unbounded solver integer (or omitted)
        prio = sp.int('late-priority') if sp.flag('explicit-priority') else None
        a = Adder(w, prio)
        ls.append(a)
        w.create_entity(a)
        sp.cover('listener-adds-processor')
    for i in range(n):
        l = Listener2() if sp.flag('mapped%d' % i) else Listener()
        ls.append(l)
        w.create_entity(l, X())
    w.create_entity(X())
    dts = []
    for f in range(frames):
        dt = sp.real('dt%d' % f)
        dts.append(dt)
        if boom is not None:
            try:
                w.process(dt)
                raised = False
            except UpdateBoom:
                raised = True
            sp.check(raised is (f == boom.frame), 'exception-propagates',
                     'frame %d: the listener %s, process() %s' % (
                         f, 'raised' if f == boom.frame else 'did not raise', 'raised' if raised else 'returned normally'))
            sp.check(len(boom.got) == f + 1 and boom.got[-1] is dt, 'on_update',
                     'the raising listener got %r by frame %d' % (boom.got, f))
            if f == boom.frame:
                # who else is told in the frame that fails is not fixed (listener order); nobody is told twice
                for l in ls:
                    sp.check(len(l.got) in (f, f + 1), 'on_update', 'listener got %r in the failing frame %d' % (l.got, f))
                    del l.got[f:]
                    l.got.append(dt)
                sp.cover('listener-raised')
                continue
            if f > boom.frame:
                sp.cover('frame-after-failure')
        else:
            w.process(dt)
        for l in ls:
            sp.check(len(l.got) == f + 1 and l.got[-1] is dt, 'on_update',
                     'listener got %r in frame %d (dt object %r)' % (l.got, f, dt))
        if ls:
            sp.cover('relayed')
    if adder:
        sp.check(a.added is not None and w.get_processor(LateProc) is a.added, 'effect',
                 'the processor added from inside on_update is not registered')
        n_calls = len(a.added.calls)
        sp.check(frames - 1 <= n_calls <= frames, 'late-processor-runs',
                 'the processor added in frame 0 ran %d times in %d frames' % (n_calls, frames))
    sp.done()


_PROTO_REQ = ['from-dict', 'from-method', 'from-sub-method', 'from-default', 'name-clash', 'sub-init_methods',
              'type-listed-twice', 'falsy-dict-entry', 'second-instance-method']
HARNESSES = {
    'twin': dict(fn=h_twin, nontrivial=COMP_OPS + NULLARY + PROC_OPS,
                 required=COMP_OPS + NULLARY + PROC_OPS + ['detached-controller', 'controller-of-empty-entity', 'moved-controller']),
    'proto': dict(fn=h_proto, nontrivial=['from-dict', 'from-method', 'from-sub-method', 'name-clash', 'sub-init_methods'],
                  required=['from-dict', 'from-method', 'from-sub-method', 'from-default', 'name-clash', 'sub-init_methods',
                            'type-listed-twice', 'falsy-dict-entry', 'second-instance-method']),
    'update': dict(fn=h_update, nontrivial=['relayed'], required=['relayed'], split=False),
}
TIERS = {
    'quick': [('update', dict(max_listeners=2, frames=2, adder=True), dict(required=['relayed', 'listener-adds-processor'])),
              ('twin', dict(steps=1, second_types=1)),
              ('twin', dict(steps=3, focus='procs'), dict(required=PROC_OPS + ['direct-world-op'])),
              ('twin', dict(steps=3, focus='comps'), dict(required=FOCUS_COMP_OPS + ['ref-set-sub', 'direct-world-op'])),
              ('twin', dict(steps=1, second_types=1, ids=(None, 0)), dict(required=COMP_OPS + NULLARY + ['unusual-ids'])),
              ('proto', dict(n_types=2), dict(required=_PROTO_REQ + ['prototype-chain-depth-3', 'prototype-chain-depth-2'])), ('update', dict()),
              ('update', dict(max_listeners=2, frames=3, raiser=True), dict(required=['relayed', 'listener-raised', 'frame-after-failure']))],
    'thorough': [('update', dict(max_listeners=3, frames=3, adder=True), dict(required=['relayed', 'listener-adds-processor'])),
                 ('twin', dict(steps=2, deep_sub=False), dict(required=COMP_OPS + NULLARY_BASE + PROC_OPS + ['detached-controller', 'controller-of-empty-entity', 'moved-controller'])),
                 ('twin', dict(steps=1)), ('twin', dict(steps=4, focus='procs'), dict(required=PROC_OPS + ['direct-world-op'])),
                 ('twin', dict(steps=2, second_types=1, ids=(None, ''), deep_sub=False), dict(required=COMP_OPS + NULLARY_BASE + ['unusual-ids'])),
                 ('twin', dict(steps=4, focus='comps'), dict(required=FOCUS_COMP_OPS + ['ref-set-sub', 'direct-world-op'])), ('proto', dict(n_types=3, falsy=False, extra_levels=0), dict(required=['from-dict', 'from-method', 'from-sub-method', 'from-default', 'name-clash', 'sub-init_methods', 'type-listed-twice', 'second-instance-method'])),
                 ('proto', dict(n_types=2), dict(required=_PROTO_REQ + ['prototype-chain-depth-3', 'prototype-chain-depth-2'])), ('update', dict(max_listeners=4, frames=3)),
                 ('update', dict(max_listeners=3, frames=4, raiser=True), dict(required=['relayed', 'listener-raised', 'frame-after-failure']))],
}
BUDGET_S = {'quick': 150, 'thorough': 1500}
EXPLANATION = (
    'Bounded symbolic execution of desper.logic shorthands on the real code.  twin: two worlds are built from the same '
    'symbolic presence/dead/processor bits; the controller shorthand (or reference descriptor) is applied to one and '
    'the plain World call to the other; return values (mirror-independent views) and a full observable snapshot '
    '(get/get_components/has_component/get_component/entity_exists/entities/processors) must coincide, also after a '
    'final process().  proto: Prototype subclasses are generated from symbolic recipe bits and the construction '
    'source of each yielded component is compared with the resolution order of the statement.  update: the dt '
    'relayed by OnUpdateProcessor is a symbolic real and must arrive as the identical object, once per listener.')
RULE = ('one evaluation = one feasible path (state bits x operation, or recipe bits); non-trivial = the path applied a '
        'shorthand / used a non-default construction source / relayed to at least one listener')
BOUNDS = {'quick': 'twin (also with the entity ids None and 0 instead of 1 and 2): id 1 x 3 types (A, B(A), X), id 2 x 1 type + dead + 2 processors, controller on either id, 1 operation of 14; '
                   'proto: <=2 listed types; update: <=3 listeners, 2 frames',
          'thorough': 'twin: 2 operations; proto: <=3 listed types; update: <=4 listeners, 3 frames'}
ASSUMPTIONS = ['update with raiser=True: one on_update listener raises in one solver-chosen frame; the exception must leave process(), '
               'which listeners were told in that frame is free, and every later frame relays to everyone exactly once again',
               'an on_update listener may register one more processor (symbolic priority) from inside its callback: every listener must still be told each frame\'s dt exactly once; whether the new processor already runs in that frame is don\'t-care',
               'component identity is compared through (class name, tag) because twin worlds hold mirrored instances',
               'a reference is only assigned an instance of its declared type (the descriptor asserts it)',
               'init_methods is resolved by ordinary attribute lookup: a subclass that defines init_methods replaces the inherited dictionary']
OUTSIDE = ['controllers whose entity/world attributes were never set', 'Prototype.__init__ arguments (user code)']

TECHNIQUE = 'bounded symbolic execution (symx/z3): twin-world differential for shorthands, symbolic Prototype recipes, symbolic real dt'
