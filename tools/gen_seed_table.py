#!/usr/bin/env python3
"""Print the markdown table of seeded changes from seeded/*/meta.json."""
import glob, json, os
VERIF = os.path.dirname(os.path.dirname(os.path.abspath(__file__)))
print('| seed | breaks | change | needs | caught by (tier: clause) |')
print('|---|---|---|---|---|')
for d in sorted(glob.glob(os.path.join(VERIF, 'seeded', '*'))):
    m = json.load(open(os.path.join(d, 'meta.json')))
    caught = []
    for k, v in m.get('checks', {}).items():
        if v['exit'] == 1:
            cl = [l for l in v['lines'] if l.startswith('counterexample')]
            clause = cl[0].split('clause ')[1].split(')')[0] if cl else '?'
            caught.append('%s: `%s`' % (k, clause))
        elif v['exit'] == 0:
            caught.append('%s: missed' % k)
        else:
            caught.append('%s: exit %s' % (k, v['exit']))
    note = (' — ' + m['note']) if m.get('note') else ''
    print('| %s | %s | %s | %s | %s%s |' % (os.path.basename(d), m.get('property'), m.get('summary', '').replace('|', '/')[:160],
                                         m.get('needs', '').replace('|', '/')[:170], '; '.join(caught), note))
