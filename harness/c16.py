"""C16 — directory population mirrors the file tree under the rules.

Every path: (1) all symbolic decisions are drawn up-front (presence bits of a candidate file tree - a
file can only exist if its directory does -, the rule list, the option values and how they are passed,
optionally a second population), (2) the tree is materialised in a fresh temporary directory (tmpfs when
available; removed in a `finally`), (3) the REAL `DirectoryResourcePopulator.__call__` runs against it
with the real glob/os.path, (4) the resulting map is walked completely through the public attributes
(`maps`, `handles.maps`) and compared with a reference computed from the bits.

Reference (from the statement):
  * every accepted regular file is reachable with `get(key)` (key = path relative to the root, '/'
    separated, extension dropped with trim_extensions) through a handle made in THIS call by the rule's
    factory from (that file's path, *rule args, **rule kwargs);
  * every directory on the way is a sub-map;
  * nothing new that is not such a handle at its key / not a directory under (or leading to) a rule's
    directory;
  * clash: nest -> everything that was retrievable under the key stays retrievable, older below newer;
    no nest -> only the newest handle of this call is present, the handle it displaced is gone;
  * exists-but-not-a-directory -> ValueError; missing -> skipped.
"""
import functools
import os
import shutil
import tempfile

import desper
from desper.model import (DirectoryResourcePopulator, DirectoryPopulatorRule, ResourceMap, Handle)

PROPERTY = 'C16'

BASE = '/dev/shm' if os.path.isdir('/dev/shm') and os.access('/dev/shm', os.W_OK) else tempfile.gettempdir()



def _sweep():
    """Remove scratch trees left behind by a run that was killed (their creating process is gone)."""
    for name in os.listdir(BASE):
        parts = name.split('-')
        if len(parts) >= 3 and parts[0] == 'c16' and parts[1].isdigit():
            try:
                os.kill(int(parts[1]), 0)
            except ProcessLookupError:
                shutil.rmtree(os.path.join(BASE, name), ignore_errors=True)
            except OSError:
                pass


_sweep()

# candidate entries: (relative path, kind, parent) - parents before children
CAND = [
    ('res', 'd', None),
    ('res/a.txt', 'f', 'res'),
    ('res/a.png', 'f', 'res'),
    ('res/noext', 'f', 'res'),
    ('res/a.tar.gz', 'f', 'res'),
    ('res/z.txt', 'f', 'res'),
    ('res/S.PNG', 'f', 'res'),                  # upper-case extension ...
    ('res/t.png', 'f', 'res'),                  # ... and a lower-case twin in the same directory
    ('res/sub', 'd', 'res'),
    ('res/sub/a.txt', 'f', 'res/sub'),
    ('res/sub/a.png', 'f', 'res/sub'),
    ('res/sub/deep', 'd', 'res/sub'),
    ('res/sub/deep/b.txt', 'f', 'res/sub/deep'),
    ('res/d.txt', 'd', 'res'),                  # a directory whose name has an extension
    ('res/d.txt/e.txt', 'f', 'res/d.txt'),
    ('res2', 'd', None),
    ('res2/c.txt', 'f', 'res2'),
    ('other', 'd', None),
    ('other/x', 'f', 'other'),
]
KIND = {n: k for n, k, _ in CAND}
PARENT = {n: p for n, _, p in CAND}
NOTDIR = 'plainfile'            # a regular file directly under the root, always present
THROUGH = NOTDIR + '/extra'     # a path that does not exist and runs through that regular file
MISSING = 'missing'             # never present

FULL_BITS = ['res/a.txt', 'res/a.png', 'res/noext', 'res/sub', 'res/sub/a.txt', 'res/sub/deep',
             'res/sub/deep/b.txt', 'res2', 'res2/c.txt']
EXTRAS = [(('p', 1), {'k': 'v'}), ((), {}), (('only-positional',), {}), ((), {'mode': 'r', 'n': 2})]


def split_ext(rel):
    """(key without extension, extension) of the last component; names here never start with a dot."""
    head, _, last = rel.rpartition('/')
    i = last.rfind('.')
    if i <= 0:
        return rel, ''
    return (head + '/' if head else '') + last[:i], last[i:]


class Rec(Handle):
    """Handle that remembers what the factory was given."""

    def __init__(self, rule, call, path, args, kwargs):
        self.rule = rule
        self.call = call
        self.path = path
        self.args = args
        self.kwargs = kwargs

    def load(self):
        return self.path

    def __repr__(self):
        return '<Rec rule%d call%d %s>' % (self.rule, self.call, self.path)


class RecEmpty(Rec):
    """A handle that is falsy: reports length 0 (e.g. a lazily loaded collection)."""

    def __len__(self):
        return 0


class RecFalse(Rec):
    """A handle that is falsy through __bool__."""

    def __bool__(self):
        return False


HANDLE_FLAVOURS = [('ordinary', Rec), ('len-0', RecEmpty), ('bool-false', RecFalse)]
FACTORY_KINDS = ['function', 'class', 'partial', 'callable-object']


def _record(rule_index, state, path, *args, **kwargs):
    return state['cls'](rule_index, state['call'], path, args, kwargs)


class Maker:
    """A factory that is an object with __call__ (it has no __name__)."""

    def __init__(self, rule_index, state):
        self.rule_index = rule_index
        self.state = state

    def __call__(self, path, *args, **kwargs):
        return _record(self.rule_index, self.state, path, *args, **kwargs)


def make_factory(rule_index, state, kind='function'):
    """The rule's factory - any callable.  Every kind records (path, *args, **kwargs) in a Rec."""
    if kind == 'function':
        def factory(path, *args, **kwargs):
            return _record(rule_index, state, path, *args, **kwargs)
        return factory
    if kind == 'class':
        class RecOfRule(state['cls']):
            def __init__(self, path, *args, **kwargs):
                Rec.__init__(self, rule_index, state['call'], path, args, kwargs)
        return RecOfRule
    if kind == 'partial':
        return functools.partial(_record, rule_index, state)
    assert kind == 'callable-object'
    return Maker(rule_index, state)


# --------------------------------------------------------------------------------------------- drawing
def draw_tree(sp, bits, present):
    tree = set(present)
    for name, _, parent in CAND:
        if name in tree:
            assert parent is None or parent in tree, name
        elif name in bits and (parent is None or parent in tree):
            if sp.flag('has[%s]' % name):
                tree.add(name)
    return tree


def draw_opts(sp, mode, label, ctor=None):
    """-> (ctor_kwargs or None, call_kwargs, effective nest, effective trim)."""
    tri = [None, True, False]
    if ctor is None:
        if mode == 'call':          # library defaults at construction, explicit values per call
            ck = {}
        else:                       # 'ctor', 'full', 'override': each option omitted, True or False
            ck = {}
            n = tri[sp.choose(3, label + '.ctor-nest')]
            t = tri[sp.choose(3, label + '.ctor-trim')]
            if n is not None:
                ck['nest_on_conflict'] = n
            if t is not None:
                ck['trim_extensions'] = t
    else:
        ck = ctor
    if mode in ('call', 'override'):    # explicit values per call ('override': after chosen ctor values)
        kk = dict(nest_on_conflict=bool(sp.choose(2, label + '.nest')),
                  trim_extensions=bool(sp.choose(2, label + '.trim')))
    elif mode == 'ctor':
        kk = {}
    else:
        kk = {}
        n = tri[sp.choose(3, label + '.call-nest')]
        t = tri[sp.choose(3, label + '.call-trim')]
        if sp.choose(2, label + '.explicit-none') == 1:     # pass None explicitly / omit the keyword
            kk = dict(nest_on_conflict=n, trim_extensions=t)
        else:
            if n is not None:
                kk['nest_on_conflict'] = n
            if t is not None:
                kk['trim_extensions'] = t
    nest = kk.get('nest_on_conflict')
    if nest is None:
        nest = ck.get('nest_on_conflict', True)         # documented default
    trim = kk.get('trim_extensions')
    if trim is None:
        trim = ck.get('trim_extensions', False)         # documented default
    return ck, kk, nest, trim


# ------------------------------------------------------------------------------------------------ walk
def snapshot(sp, rmap, when):
    """node path -> (map object, {key: [(layer index, handle) top..bottom]}, {key: submap})."""
    out = {}
    seen = set()
    stack = [('', rmap)]
    while stack:
        p, m = stack.pop()
        sp.check(isinstance(m, ResourceMap), 'spurious-entry',
                 '%s: %r is stored as a sub-map but is %r' % (when, p, m))
        sp.check(id(m) not in seen, 'spurious-entry', '%s: map %r appears twice in the tree' % (when, p))
        seen.add(id(m))
        per_key = {}
        for li, layer in enumerate(m.handles.maps):
            for k, h in layer.items():
                per_key.setdefault(k, []).append((li, h))
        subs = dict(m.maps)
        for k in list(per_key) + list(subs):
            sp.check(isinstance(k, str) and k != '' and ResourceMap.split_char not in k, 'spurious-entry',
                     '%s: map %r holds the key %r, which no path-derived key can address' % (when, p, k))
        out[p] = (m, per_key, subs)
        for k, sub in subs.items():
            stack.append(((p + '/' if p else '') + k, sub))
    return out


def shape(rmap):
    """Structure of a whole map: per node the layers (key -> handle identity) and the sub-map keys."""
    out = {}
    stack = [('', rmap)]
    while stack:
        p, m = stack.pop()
        out[p] = ([sorted((k, id(h)) for k, h in layer.items()) for layer in m.handles.maps], sorted(m.maps))
        for k, sub in m.maps.items():
            stack.append(((p + '/' if p else '') + k, sub))
    return out


def ids(pairs):
    return [id(h) for _, h in pairs]


def rel_of(h, root):
    """File the handle was built from, relative to the (already resolved) root, '/'-separated."""
    return os.path.relpath(os.path.realpath(h.path), root).replace(os.sep, '/')


# ---------------------------------------------------------------------------------------------- oracle
def expected_instantiations(tree, rules):
    """-> (list of (rule index, rel file) in rule order, index of the rule rejected with ValueError or None)."""
    inst = []
    for ri, r in enumerate(rules):
        d = r['dir']
        if d == NOTDIR:
            return inst, ri
        if d not in tree or KIND[d] != 'd':
            continue
        for name in sorted(tree):
            if KIND[name] == 'f' and name.startswith(d + '/'):
                if not r['exts'] or split_ext(name)[1] in r['exts']:
                    inst.append((ri, name))
    return inst, None


def allowed_dirs(tree, rules):
    """Directories that may show up as sub-maps: under (or equal to, or leading to) a rule's directory."""
    ok = set()
    for r in rules:
        d = r['dir']
        if d in tree and KIND[d] == 'd':
            for name in tree:
                if KIND[name] == 'd' and (name == d or name.startswith(d + '/')):
                    ok.add(name)
            while PARENT[d] is not None:
                d = PARENT[d]
                ok.add(d)
    return ok


def _by_key(inst, trim):
    by_key = {}
    for ri, f in inst:
        key = split_ext(f)[0] if trim else f
        by_key.setdefault(key, []).append((ri, f))
    return by_key


def oracle(sp, rmap, root, tree, rules, call, nest, trim, prev, when):
    new = snapshot(sp, rmap, when)
    inst, _ = expected_instantiations(tree, rules)
    by_key = _by_key(inst, trim)

    # -- nothing is added that does not correspond to a file or directory under a rule's directory
    okdirs = allowed_dirs(tree, rules)
    met = set()
    for p, (m, per_key, subs) in new.items():
        if p and p not in prev:
            sp.check(p in okdirs, 'spurious-map',
                     '%s: sub-map %r was added but is no directory under a rule\'s directory' % (when, p))
        old_here = set()
        if p in prev:
            for k, pairs in prev[p][1].items():
                old_here.update((k, id(h)) for _, h in pairs)
        for k, pairs in per_key.items():
            full = (p + '/' if p else '') + k
            for li, h in pairs:
                if (k, id(h)) in old_here:
                    continue
                good = isinstance(h, Rec) and h.call == call and id(h) not in met
                sp.check(good, 'spurious-handle',
                         '%s: %r (layer %d) holds %r, neither there before nor made by this population' % (
                             when, full, li, h))
                met.add(id(h))
                rel = rel_of(h, root)
                sp.check((h.rule, rel) in by_key.get(full, ()), 'spurious-handle',
                         '%s: %r holds a handle for file %r of rule %d; that is not an accepted file with this '
                         'key' % (when, full, rel, h.rule))
                r = rules[h.rule]
                sp.check(tuple(h.args) == tuple(r['args']) and dict(h.kwargs) == dict(r['kwargs']),
                         'factory-args', '%s: handle at %r was built with %r %r, the rule says %r %r' % (
                             when, full, h.args, h.kwargs, r['args'], r['kwargs']))

    # -- every accepted file is reachable; directories on the way are sub-maps; clashes
    for key, want in by_key.items():
        parts = key.split('/')
        for i in range(1, len(parts)):
            pre = '/'.join(parts[:i])
            sp.check(isinstance(rmap.get(pre), ResourceMap) and pre in new and rmap.get(pre) is new[pre][0],
                     'dir-is-submap', '%s: %r (on the way to %r) is %r, not a sub-map' % (
                         when, pre, key, rmap.get(pre)))
        p, k = '/'.join(parts[:-1]), parts[-1]
        top = rmap.get(key)
        sp.check(isinstance(top, Rec) and top.call == call, 'file-reachable',
                 '%s: get(%r) is %r, expected a handle for %r made by this population' % (when, key, top, want))
        now = new[p][1].get(k, []) if p in new else []
        sp.check(bool(now) and now[0][1] is top, 'file-reachable',
                 '%s: get(%r) does not return the top layer entry' % (when, key))
        before = prev[p][1].get(k, []) if p in prev else []
        fresh = [h for _, h in now if isinstance(h, Rec) and h.call == call]
        if nest:
            if before or len(want) > 1:
                sp.cover('clash-nest')
            n = len(want)
            sp.check(sorted((h.rule, rel_of(h, root)) for h in fresh) == sorted(want)
                     and ids(now[:n]) == [id(h) for h in fresh],
                     'nest-keeps-older',
                     '%s: key %r: expected one handle per accepted file %r on top, layers hold %r' % (
                         when, key, want, [h for _, h in now]))
            sp.check(all(a.rule >= b.rule for a, b in zip(fresh, fresh[1:])), 'nest-order',
                     '%s: key %r: a handle of an earlier rule lies above one of a later rule: %r' % (
                         when, key, fresh))
            sp.check(ids(now[n:]) == ids(before), 'nest-keeps-older',
                     '%s: key %r: handles retrievable before %r, beneath the new ones now %r' % (
                         when, key, [h for _, h in before], [h for _, h in now[n:]]))
        else:
            if before or len(want) > 1:
                sp.cover('clash-replace')
            last = max(ri for ri, _ in want)
            sp.check(top.rule == last, 'replace-newest',
                     '%s: key %r: top handle is from rule %d, the last accepting rule is %d' % (
                         when, key, top.rule, last))
            sp.check(len(fresh) == 1, 'replace-drops-older',
                     '%s: key %r: without nesting %d handles of this population are kept: %r' % (
                         when, key, len(fresh), fresh))
            if before:
                if before[0][0] == 0:
                    sp.check(id(before[0][1]) not in ids(now), 'replace-drops-older',
                             '%s: key %r: the displaced handle %r is still retrievable' % (
                                 when, key, before[0][1]))
                elif id(before[0][1]) in ids(now):
                    sp.cover('replace-leaves-lower-layer')      # don't-care, see ASSUMPTIONS
        if len(parts) >= 4:
            sp.cover('deep-file')
    return new


# --------------------------------------------------------------------------------------------- harness
def h_populate(sp, bits=(), present=('res',), rule_dirs=('res',), exts=((), ('.txt',)), n_rules=(1,),
               opts='call', extras=1, styles=False, second=None, mids=(), factories=1, flavours=1, shared_exts=False, copy_to_fresh=False):
    # ---- 1. all decisions, before any file-system work
    tree = draw_tree(sp, set(bits), set(present))
    nr = n_rules[sp.choose(len(n_rules), 'n-rules')]
    rules = []
    flavour, handle_cls = HANDLE_FLAVOURS[sp.choose(flavours, 'handle-flavour')]
    kind0 = sp.choose(factories, 'factory-kind')       # rule i uses kind (kind0 + i) mod 4
    for i in range(nr):
        d = rule_dirs[sp.choose(len(rule_dirs), 'rule%d.dir' % i)]
        e = exts[sp.choose(len(exts), 'rule%d.exts' % i)]
        a, kw = EXTRAS[sp.choose(extras, 'rule%d.extras' % i)]
        direct = bool(styles and sp.choose(2, 'rule%d.direct' % i))
        rules.append(dict(dir=d, exts=tuple(e), args=a, kwargs=kw, direct=direct,
                          kind=FACTORY_KINDS[(kind0 + i) % len(FACTORY_KINDS)]))
    shared = bool(shared_exts and sp.choose(2, 'one-shared-exts-list'))
    which = sp.choose(2, 'copied-file') if copy_to_fresh else 0
    ck, kk, nest, trim = draw_opts(sp, opts, 'call0')
    root_at_call = bool(styles and sp.choose(2, 'root-at-call'))
    calls = [(kk, nest, trim, None)]
    if second is not None:
        mid = sp.choose(len(mids) + 1, 'mid')
        added = mids[mid - 1] if mid else None
        if added is not None and added in tree:
            sp.assume(False)                    # same scenario as mid == 0
        _, kk2, nest2, trim2 = draw_opts(sp, second, 'call1', ctor=ck)
        calls.append((kk2, nest2, trim2, added))

    # ---- 2. materialise, 3. run, 4. compare
    root = os.path.realpath(tempfile.mkdtemp(prefix='c16-%d-' % os.getpid(), dir=BASE))
    try:
        with open(os.path.join(root, NOTDIR), 'w') as f:
            f.write('x')
        for name, kind, _ in CAND:
            if name in tree:
                if kind == 'd':
                    os.mkdir(os.path.join(root, name))
                else:
                    with open(os.path.join(root, name), 'w') as f:
                        f.write(name)
        sp.note('tree: %s' % ' '.join(sorted(n + ('/' if KIND[n] == 'd' else '') for n in tree)))
        state = {'call': 0, 'cls': handle_cls}
        sp.note('handles made by the factories are %s objects' % flavour)
        if root_at_call:
            pop = DirectoryResourcePopulator(os.path.join(root, 'nowhere'), **ck)
        else:
            pop = DirectoryResourcePopulator(root, **ck)
        sp.note('DirectoryResourcePopulator(%s%s)' % ('<root>/nowhere' if root_at_call else '<root>', ''.join(
            ', %s=%r' % kv for kv in ck.items())))
        exts_list = []          # ONE list object the caller reuses (and rewrites) for every add_rule call
        for i, r in enumerate(rules):
            fac = make_factory(i, state, r['kind'])
            if shared and not r['direct']:
                exts_list[:] = list(r['exts'])
                pop.add_rule(r['dir'], fac, *r['args'], file_exts=exts_list, **r['kwargs'])
                sp.note('the shared list is rewritten to %r and passed as file_exts of the next rule' % (exts_list,))
                if i and rules[i - 1]['exts'] != r['exts']:
                    sp.cover('shared-exts-list-changed-between-rules')
            elif r['direct']:
                pop.rules.append(DirectoryPopulatorRule(r['dir'], fac, list(r['args']), r['exts'],
                                                        dict(r['kwargs'])))
            else:
                pop.add_rule(r['dir'], fac, *r['args'], file_exts=r['exts'], **r['kwargs'])
            sp.note('rule %d: %r factory=<%s> file_exts=%r args=%r kwargs=%r%s' % (
                i, r['dir'], r['kind'], r['exts'], r['args'], r['kwargs'], ' (rule object appended)' if r['direct'] else ''))
        rmap = ResourceMap()
        prev = snapshot(sp, rmap, 'initially')
        other = other_shape = None
        for ci, (kw, nest_i, trim_i, added) in enumerate(calls):
            when = 'population %d' % ci
            if ci and copy_to_fresh:
                # a handle object of the populated map A is ALSO stored in a fresh map B, under the key this
                # population will give its file; then B is populated
                files = sorted({f for _, f in expected_instantiations(tree, rules)[0]})
                if not files:
                    sp.assume(False)
                f = files[which % len(files)]
                k_old = split_ext(f)[0] if calls[0][2] else f
                k_new = split_ext(f)[0] if trim_i else f
                shared_handle = rmap.get(k_old)
                other, rmap = rmap, ResourceMap()
                rmap[k_new] = shared_handle
                sp.note('B = ResourceMap(); B[%r] = A.get(%r); now B is populated' % (k_new, k_old))
                other_shape = shape(other)
                prev = snapshot(sp, rmap, 'map B before its population')
                sp.cover('handle-shared-%s' % ('nest' if nest_i else 'replace'))
            if added is not None:
                d = PARENT[added]
                todo = []
                while d is not None and d not in tree:
                    todo.append(d)
                    d = PARENT[d]
                for d in reversed(todo):
                    os.mkdir(os.path.join(root, d))
                    tree.add(d)
                with open(os.path.join(root, added), 'w') as f:
                    f.write(added)
                tree.add(added)
                sp.note('file %s added' % added)
                sp.cover('file-added-between')
            state['call'] = ci
            inst, rejected = expected_instantiations(tree, rules)
            args = dict(kw)
            if root_at_call:
                args['root'] = root
            sp.note('populate(map%s)  [effective nest_on_conflict=%r trim_extensions=%r]' % (
                ''.join(', %s=%r' % (k, '<root>' if k == 'root' else v) for k, v in args.items()), nest_i,
                trim_i))
            raised = None
            try:
                pop(rmap, **args)
            except Exception as ex:         # noqa  (engine control flow is BaseException)
                raised = ex
            if rejected is not None:
                sp.cover('not-a-directory')
                sp.cover('not-a-directory:factory-' + rules[rejected]['kind'])
                sp.check(raised is not None, 'notdir-valueerror',
                         '%s: rule %d names the regular file %r; population went through without ValueError' % (
                             when, rejected, NOTDIR))
                sp.check(isinstance(raised, ValueError), 'notdir-valueerror',
                         '%s: rule %d names the regular file %r; raised %r instead of ValueError' % (
                             when, rejected, NOTDIR, raised))
                break           # the state of the map after the rejection is not specified
            if raised is not None:
                sp.fail('populate-raises', '%s: raised %r' % (when, raised))
            # vacuity tags
            if any(r['dir'] == MISSING or (r['dir'] in KIND and r['dir'] not in tree) for r in rules):
                sp.cover('missing-skipped')
            for i, r in enumerate(rules):
                if r['dir'] in tree and KIND[r['dir']] == 'd' and r['exts']:
                    under = [n for n in tree if KIND[n] == 'f' and n.startswith(r['dir'] + '/')]
                    upper_only = '.PNG' in r['exts'] and '.png' not in r['exts']
                    lower_only = '.png' in r['exts'] and '.PNG' not in r['exts']
                    if upper_only and any(split_ext(n)[1] == '.PNG' for n in under):
                        sp.cover('upper-case-filter-accepts')
                    if upper_only and any(split_ext(n)[1] == '.png' for n in under):
                        sp.cover('upper-case-filter-rejects-lower')
                    if lower_only and any(split_ext(n)[1] == '.PNG' for n in under):
                        sp.cover('lower-case-filter-rejects-upper')
                if r['dir'] == THROUGH:
                    sp.cover('missing-below-a-file-skipped')
                    if any(ri > i for ri, _ in inst):
                        sp.cover('missing-below-a-file-then-rule-applied')
            if flavour != 'ordinary':
                clash = any(len(v) > 1 for v in _by_key(inst, trim_i).values()) or (ci and inst)
                if clash:
                    sp.cover('falsy-handle-clash-%s' % ('nest' if nest_i else 'replace'))
                    sp.cover('falsy-handle:' + flavour)
            for ri in {ri for ri, _ in inst}:
                sp.cover('built-by:' + rules[ri]['kind'])
            if trim_i:
                sp.cover('trim')
            if ('nest_on_conflict' in ck and kw.get('nest_on_conflict') is None) or (
                    'trim_extensions' in ck and kw.get('trim_extensions') is None):
                sp.cover('option-falls-back')
            if 'nest_on_conflict' not in ck and kw.get('nest_on_conflict') is None:
                sp.cover('ctor-default-nest')       # documented default: nesting enabled
                if any(len(v) > 1 for v in _by_key(inst, trim_i).values()) or ci:
                    sp.cover('ctor-default-nest-clash')
            if 'trim_extensions' not in ck and kw.get('trim_extensions') is None:
                sp.cover('ctor-default-trim')       # documented default: extensions kept
            if root_at_call:
                sp.cover('root-per-call')
            if any(r['direct'] for r in rules):
                sp.cover('rule-object-appended')
            if ci and (nest_i, trim_i) != calls[0][1:3]:
                sp.cover('options-differ')
            if ci:      # option left out now, overridden in the previous call: construction value must apply
                for opt, default in (('nest_on_conflict', True), ('trim_extensions', False)):
                    was = calls[ci - 1][0].get(opt)
                    built = ck.get(opt, default)
                    if kw.get(opt) is None and was is not None and was != built:
                        sp.cover('fallback-after-override:%s:built-%s' % (opt, built))
            if any(KIND[PARENT[f]] == 'd' and split_ext(PARENT[f])[1] for _, f in inst):
                sp.cover('dir-with-extension')
            if ci:
                sp.cover('second-population')
            if len(set(inst)) < len(inst) or len({f for _, f in inst}) < len(inst):
                sp.cover('file-under-two-rules')
            for ri, f in inst:
                if rules[ri]['exts'] and PARENT[f] != rules[ri]['dir']:
                    sp.cover('filter-skips-directory-entry')
            for r in rules:
                if r['dir'] in tree and any(
                        KIND[n] == 'd' and n.startswith(r['dir'] + '/') and
                        not any(f.startswith(n + '/') for _, f in inst) for n in tree):
                    sp.cover('directory-without-accepted-file')
            prev = oracle(sp, rmap, root, tree, rules, ci, nest_i, trim_i, prev, when)
            if other is not None:
                sp.check(shape(other) == other_shape, 'other-map-unchanged',
                         '%s of map B changed map A, which only shares one handle object with it: layers/keys '
                         'before %r, after %r' % (when, other_shape, shape(other)))
    finally:
        shutil.rmtree(root, ignore_errors=True)
    sp.done()


NONTRIVIAL = ['clash-nest', 'clash-replace', 'not-a-directory', 'filter-skips-directory-entry',
              'file-under-two-rules', 'second-population', 'deep-file', 'trim', 'missing-skipped',
              'directory-without-accepted-file', 'dir-with-extension']
HARNESSES = {
    # one function, four exploration plans; the names only carry different vacuity requirements
    'trees': dict(fn=h_populate, nontrivial=NONTRIVIAL,
                  required=['clash-nest', 'clash-replace', 'trim', 'deep-file', 'filter-skips-directory-entry',
                            'directory-without-accepted-file']),
    'rules': dict(fn=h_populate, nontrivial=NONTRIVIAL,
                  required=['not-a-directory', 'missing-skipped', 'file-under-two-rules', 'clash-nest',
                            'clash-replace', 'trim']),
    'names': dict(fn=h_populate, nontrivial=NONTRIVIAL,
                  required=['dir-with-extension', 'trim', 'clash-nest', 'clash-replace']),
    'passing': dict(fn=h_populate, nontrivial=NONTRIVIAL,
                    required=['clash-nest', 'clash-replace', 'trim', 'option-falls-back', 'root-per-call',
                              'rule-object-appended']),
    'twice': dict(fn=h_populate, nontrivial=NONTRIVIAL,
                  required=['second-population', 'file-added-between', 'clash-nest', 'clash-replace',
                            'options-differ', 'replace-leaves-lower-layer']),
}

ALL_DIRS = ('res', 'res2', MISSING, NOTDIR)
FACTORY_TAGS = (['built-by:' + k for k in FACTORY_KINDS] + ['not-a-directory:factory-' + k for k in FACTORY_KINDS]
                + ['not-a-directory', 'missing-skipped', 'file-under-two-rules', 'clash-nest', 'clash-replace'])
DEFAULT_TAGS = ['ctor-default-nest', 'ctor-default-nest-clash', 'ctor-default-trim']
PASSING_TAGS = DEFAULT_TAGS + ['clash-nest', 'clash-replace', 'trim', 'option-falls-back', 'root-per-call',
                               'rule-object-appended']
CASE_EXTS = ((), ('.PNG',), ('.png',), ('.PNG', '.txt'), ('.png', '.PNG'))
CASE_TAGS = ['upper-case-filter-accepts', 'upper-case-filter-rejects-lower', 'lower-case-filter-rejects-upper',
             'trim', 'file-under-two-rules', 'clash-nest', 'clash-replace']
SHARED_TAGS = ['shared-exts-list-changed-between-rules', 'clash-nest', 'clash-replace', 'file-under-two-rules']
COPY_TAGS = ['handle-shared-nest', 'handle-shared-replace', 'second-population', 'clash-nest', 'clash-replace']
THROUGH_TAGS = ['missing-below-a-file-skipped', 'missing-below-a-file-then-rule-applied', 'not-a-directory',
                'clash-nest', 'clash-replace', 'file-under-two-rules']
FALSY_TAGS = ['falsy-handle-clash-nest', 'falsy-handle-clash-replace', 'falsy-handle:len-0',
              'falsy-handle:bool-false', 'second-population', 'file-under-two-rules']
FALLBACK_TAGS = ['fallback-after-override:%s:built-%s' % (o, b)
                 for o in ('nest_on_conflict', 'trim_extensions') for b in (True, False)]
EVERY_BIT = ['res'] + FULL_BITS + ['other', 'other/x']
TIERS = {
    'quick': [
        # every candidate tree below res/res2 x one rule on res x filter x options
        ('trees', dict(bits=FULL_BITS, present=('res', 'other', 'other/x'), rule_dirs=('res',))),
        # every list of 1-2 rules over a small tree
        ('rules', dict(bits=('res/a.png', 'res/sub/a.txt', 'res2/c.txt'),
                       present=('res', 'res/a.txt', 'res/sub', 'res2', 'other', 'other/x'),
                       rule_dirs=ALL_DIRS, n_rules=(1, 2))),
        # every kind of factory (function, class, functools.partial, object with __call__) x every rule list
        ('rules', dict(present=('res', 'res/a.txt', 'res/a.png', 'res2', 'res2/c.txt'), rule_dirs=ALL_DIRS,
                       n_rules=(1, 2), factories=4), dict(required=FACTORY_TAGS)),
        # a rule path that does not exist because a leading component is a regular file: skipped like any
        # missing directory, the other rule still applies
        ('rules', dict(bits=('res/a.png', 'res/sub/a.txt'), present=('res', 'res/a.txt', 'res/sub'),
                       rule_dirs=(THROUGH, 'res', NOTDIR), n_rules=(1, 2)), dict(required=THROUGH_TAGS)),
        # factories whose handles are falsy (__len__ == 0 / __bool__ False): clashes within one population
        # (two files on one key, two rules on one file) and across two populations
        ('twice', dict(bits=('res/noext',), present=('res', 'res/a.txt', 'res/a.png'), exts=((),),
                       n_rules=(1, 2), second='call', flavours=3), dict(required=FALSY_TAGS)),
        # the caller reuses ONE list object for file_exts and rewrites it between the add_rule calls
        ('rules', dict(bits=('res/a.png', 'res2/c.txt'), present=('res', 'res/a.txt', 'res2'),
                       rule_dirs=('res', 'res2'), n_rules=(2,), shared_exts=True), dict(required=SHARED_TAGS)),
        # one handle object of a populated map A is also stored in a fresh map B, then B is populated
        ('twice', dict(bits=('res/a.png', 'res/sub/a.txt'), present=('res', 'res/a.txt', 'res/sub'),
                       second='call', copy_to_fresh=True), dict(required=COPY_TAGS)),
        # extension filters are case sensitive: S.PNG next to t.png, filters with .PNG / .png
        ('names', dict(bits=('res/S.PNG', 'res/t.png'), present=('res', 'res/a.txt'), exts=CASE_EXTS,
                       n_rules=(1, 2)), dict(required=CASE_TAGS)),
        # names: several dots, a directory with an extension, a rule on a nested directory
        ('names', dict(bits=('res/a.tar.gz', 'res/d.txt', 'res/d.txt/e.txt', 'res/a.png', 'res/sub/a.txt'),
                       present=('res', 'res/a.txt', 'res/sub'), rule_dirs=('res', 'res/sub'))),
        # how options, root, extra arguments and rules are handed over
        ('passing', dict(bits=('res/noext',), present=('res', 'res/a.txt', 'res/a.png'), exts=((),),
                         opts='full', extras=4, styles=True), dict(required=PASSING_TAGS)),
        # same populator: call 1 overrides the options, call 2 leaves them out / passes None
        ('passing', dict(present=('res', 'res/a.txt', 'res/a.png', 'res/noext'), exts=((),), opts='override',
                         second='full'), dict(required=FALLBACK_TAGS + DEFAULT_TAGS + ['second-population'])),
        # second population of the same map
        ('twice', dict(bits=('res/a.png', 'res/noext', 'res/sub/a.txt'),
                       present=('res', 'res/a.txt', 'res/sub'), second='call', mids=('res/z.txt',))),
    ],
    'thorough': [
        # every candidate tree (all 12 design bits) x every single rule
        ('trees', dict(bits=EVERY_BIT, present=(), rule_dirs=ALL_DIRS + ('res/sub',), n_rules=(1,))),
        # every candidate tree below res/res2 x every ordered pair of rules
        ('rules', dict(bits=['res'] + FULL_BITS, present=('other', 'other/x'), rule_dirs=ALL_DIRS + ('res/sub',),
                       n_rules=(2,))),
        ('rules', dict(bits=('res/a.png', 'res/sub/a.txt', 'res2/c.txt'),
                       present=('res', 'res/a.txt', 'res/sub', 'res2', 'other', 'other/x'),
                       rule_dirs=ALL_DIRS, n_rules=(1, 2), factories=4), dict(required=FACTORY_TAGS)),
        ('rules', dict(bits=('res/a.png', 'res/sub/a.txt', 'res2/c.txt'),
                       present=('res', 'res/a.txt', 'res/sub', 'res2', 'other', 'other/x'),
                       rule_dirs=ALL_DIRS + (THROUGH,), n_rules=(1, 2)), dict(required=THROUGH_TAGS)),
        ('twice', dict(bits=('res/a.png', 'res/noext', 'res/sub/a.txt'), present=('res', 'res/a.txt', 'res/sub'),
                       n_rules=(1, 2), second='call', mids=('res/z.txt',), flavours=3, factories=2),
         dict(required=FALSY_TAGS)),
        # the caller reuses ONE list object for file_exts and rewrites it between the add_rule calls
        ('rules', dict(bits=('res/a.png', 'res2/c.txt'), present=('res', 'res/a.txt', 'res2'),
                       rule_dirs=('res', 'res2'), n_rules=(2,), shared_exts=True), dict(required=SHARED_TAGS)),
        # one handle object of a populated map A is also stored in a fresh map B, then B is populated
        ('twice', dict(bits=('res/a.png', 'res/noext', 'res/sub/a.txt'), present=('res', 'res/a.txt', 'res/sub'),
                       n_rules=(1, 2), second='call', copy_to_fresh=True), dict(required=COPY_TAGS)),
        ('names', dict(bits=('res/S.PNG', 'res/t.png', 'res/a.png', 'res/sub/a.txt'),
                       present=('res', 'res/a.txt', 'res/sub'), exts=CASE_EXTS, n_rules=(1, 2)),
         dict(required=CASE_TAGS)),
        ('names', dict(bits=('res/a.txt', 'res/a.png', 'res/a.tar.gz', 'res/noext', 'res/d.txt',
                             'res/d.txt/e.txt', 'res/sub', 'res/sub/a.txt', 'res/sub/a.png'),
                       present=('res',), rule_dirs=('res', 'res/sub'), n_rules=(1, 2))),
        ('passing', dict(bits=('res/noext',), present=('res', 'res/a.txt', 'res/a.png'), exts=((),),
                         opts='full', extras=4, styles=True), dict(required=PASSING_TAGS)),
        ('passing', dict(present=('res', 'res/a.txt', 'res/a.png', 'res/noext'), exts=((),), opts='override',
                         second='full'), dict(required=FALLBACK_TAGS + DEFAULT_TAGS + ['second-population'])),
        ('passing', dict(present=('res', 'res/a.txt', 'res/a.png', 'res/noext'),
                         opts='full', styles=True, second='full', mids=('res/z.txt',)),
         dict(required=FALLBACK_TAGS + DEFAULT_TAGS + ['second-population', 'option-falls-back',
                                                        'root-per-call'])),
        ('twice', dict(bits=('res/a.txt', 'res/a.png', 'res/noext', 'res/sub', 'res/sub/a.txt', 'res/sub/deep',
                             'res/sub/deep/b.txt'),
                       present=('res',), rule_dirs=('res', 'res/sub'), n_rules=(1, 2), second='call',
                       mids=('res/z.txt', 'res/sub/a.png', 'res/a.png'))),
    ],
}
BUDGET_S = {'quick': 120, 'thorough': 1500}

TRUSTED = ['the host file system and os/glob/shutil/tempfile of CPython (real, not stubbed): scandir order is '
           'whatever tmpfs/ext4 delivers; the oracle does not depend on it']

EXPLANATION = (
    'Bounded symbolic execution of the real DirectoryResourcePopulator against a real temporary directory.  '
    'Presence bits of a candidate file tree are solver flags (a file bit is only drawn when its directory '
    'exists), the rule list, extension filters, extra arguments, nest_on_conflict/trim_extensions (at '
    'construction, per call, omitted or None), the way the root is given and an optional second population '
    '(after adding a file, with other options) are solver choices; the explorer enumerates every feasible '
    'combination inside the bounds.  On each path the tree is created under a fresh directory (tmpfs), the real '
    '__call__/instantiate/ResourceMap.__setitem__/get run with the real glob and os.path, and the resulting map '
    'is walked completely (all sub-maps, all layers of handles.maps) and compared with the key set computed '
    'from the bits: accepted files reachable through handles that recorded (path, *args, **kwargs), directories '
    'on the way are sub-maps, nothing else was added, clashes nested or replaced as requested, ValueError for '
    'a rule naming a regular file, silence for a missing one.  The scratch directory is removed in a finally '
    'block on every path.')
RULE = ('one evaluation = one feasible path of the decision tree = one (file tree, rule list, options, second '
        'population) combination, distinct by construction; non-trivial = the path had a key clash, a '
        'not-a-directory or missing rule, a filtered sub-directory, a file under two rules, a file three levels '
        'deep, trimming, a directory without accepted files or with an extension, or a second population')
BOUNDS = {
    'quick': 'trees: 168 trees over res/{a.txt,a.png,noext,sub/{a.txt,deep/{b.txt}}}, res2/{c.txt} (other/x '
             'present) x rule on res x file_exts in {(),{.txt}} x nest x trim; rules: 8 trees x all lists of 1-2 '
             'rules over {res,res2,missing,regular file} x 2 filters x nest x trim; names: a.tar.gz, directory '
             'd.txt/, rule on res/sub; passing: options at construction (omitted/True/False each) x per call (None/True/False, omitted '
             'or explicit None), root at construction or per call, 4 extra-argument shapes, add_rule or rule object; '
             'factories: all lists of 1-2 rules x 2 filters x nest x trim x 4 factory kinds (function, class, '
             'functools.partial, object with __call__) on one tree; '
             'shared list: 2 rules over {res,res2} whose file_exts come from one rewritten list object; shared handle: '
             '4 trees, populate A, store one of its handles in a fresh B under the key of its file, populate B; '
             'case: res/S.PNG and res/t.png x 1-2 rules on res with filters from {(), {.PNG}, {.png}, {.PNG,.txt}, '
             '{.png,.PNG}}; through-file: rules over {plainfile/extra, res, plainfile} (1-2 rules) on 4 trees; falsy handles: '
             'ordinary / __len__==0 / __bool__ False handles x 1-2 rules on res x two populations; '
             'twice: 8 trees, second population with fresh options, optionally after adding res/z.txt; same populator: '
             'options at construction x explicit override in call 1 x every per-call form (omitted/None/True/False) '
             'in call 2',
    'thorough': 'trees: all 513 trees over the 12 design bits (res/, res/a.txt, res/a.png, res/noext, res/sub/, '
                'res/sub/a.txt, res/sub/deep/, res/sub/deep/b.txt, res2/, res2/c.txt, other/, other/x) x every '
                'single rule over {res,res2,missing,regular file,res/sub} x 2 filters x nest x trim; rules: 171 '
                'trees x every ordered pair of such rules x nest x trim; factories: 8 trees x all lists of 1-2 rules over 4 directories x 2 filters x nest x trim x 4 factory '
                'kinds; shared list / shared handle as quick (8 trees, 1-2 rules for the latter); case: 16 trees with S.PNG, t.png, a.png, sub/a.txt x the same five filters x 1-2 rules; '
                'through-file: the quick rules plan with plainfile/extra as a sixth rule directory; falsy handles: 8 '
                'trees x 3 handle flavours x 2 factory kinds x 1-2 rules x two populations; names: 240 trees with a.tar.gz, d.txt/'
                'e.txt, sub/a.png x 1-2 rules over {res,res/sub}; passing as quick plus a second call with every '
                'per-call option form (None/True/False each, None omitted or explicit); twice: 57 trees x 1-2 rules over {res,res/sub} x options x '
                '{nothing, +res/z.txt, +res/sub/a.png, +res/a.png} x options of the second call',
}
ASSUMPTIONS = [
    'which of two files with the same trimmed key (a.txt / a.png) ends on top depends on scandir order: '
    'don\'t-care; between rules the order is fixed (handles of a later rule lie above / replace those of an '
    'earlier rule)',
    'empty directories, directories whose files are all filtered out, the rule directory itself and the '
    'directories leading to a nested rule directory MAY appear as sub-maps but need not (the statement only '
    'requires directories on the way to an accepted file)',
    'a new handle must sit exactly at the key of its file under the options of the call that made it; entries '
    'made by an earlier population (e.g. untrimmed keys) may stay and are not required to stay when nothing '
    'clashes with them',
    'without nesting the displaced handle must be gone when it was stored in the top layer; if it was only '
    'visible through a lower layer (left by an earlier nesting population of a neighbouring key) the statement '
    'does not say whether it must be purged: accepted either way (cover tag replace-leaves-lower-layer)',
    'with nesting the number of layers is free; only the top-to-bottom order of the handles of one key is compared',
    'the state of the map after a ValueError rejection is not specified and not inspected; rules before the '
    'rejected one may or may not have been applied',
    'the factory receives a path that resolves (realpath) to the file; its textual form is free',
    'the rule\'s factory is any callable: function, class, functools.partial and an object with __call__ (no '
    '__name__) are tried; with two rules the second uses the next kind in that list',
    'a rule path that cannot exist because one of its leading components is a regular file '
    '(plainfile/extra) is a MISSING path (nothing exists there): skipped, later rules still applied',
    'handles are arbitrary objects of the factory: their truth value must not matter (falsy handles with '
    '__len__ == 0 or __bool__ False are tried)',
    'extension filters compare the extension exactly as spelled (case sensitive): {.PNG} accepts S.PNG and not '
    't.png, {.png} the reverse; the scratch file system (tmpfs/ext4) is case sensitive',
    'a rule filters by the extensions its file_exts argument held WHEN add_rule was called; the caller may reuse '
    'and rewrite that list afterwards',
    'a handle object may be stored in two maps; populating one of them treats it like any older handle under '
    'that key and leaves the other map (layers, keys, handles) untouched',
    'handle.parent / handle.key back-links are C11, not checked here',
    'an option omitted at construction has the documented default (nest_on_conflict enabled, trim_extensions '
    'False); constructing with none, one or both options is explored',
    'an option that is omitted or None in a call takes the value given at CONSTRUCTION (class docs), also when '
    'an earlier call of the same populator overrode it',
]
OUTSIDE = ['a file and a directory whose keys coincide after trimming (res/sub.txt next to res/sub/): a handle '
           'and a map compete for one name, the statement does not say who wins',
           'symlinks, hidden files (glob skips them), case-insensitive file systems, permissions, non-UTF-8 names',
           'rule directories outside the root or equal to it, a root that is relative or does not exist',
           'maps that already hold foreign entries before the first population, other than a handle stored under '
           'the key of its own file',
           'trees, depths and names beyond the candidate set; more than two rules; more than two populations']

TECHNIQUE = 'bounded symbolic execution (symx/z3) over file-tree presence bits, rules and options against a real temporary directory'
