"""C18 — vector and matrix operations compute their textbook definitions (exact reals, z3 nlsat).

Every entry of every operand and every scalar is an exact real solver variable (`SReal`); the real
`desper/math.py` code runs on them; every obligation compares what the real code returned with the
textbook expression written out below and asks z3 for *validity* (no real values make them differ).
`math.sqrt/cos/sin/atan2` inside desper.math are routed through `symx.mathshim` (sqrt = the witness
r >= 0, r*r == a; an angle = an arbitrary point (c, s) of the unit circle, given rationally by t = tan(angle/2)
plus the point angle = pi, with the angle-sum formulas for `heading + angle`).

Layout: one small function per obligation (`ob_*`), registered in `OBLIGATIONS[family]`; every obligation
is its own HARNESSES/TIERS entry and runs as its own job on the runner's process pool (`kind='custom'`,
see `_entry`), where its whole decision tree is explored with the standard explorer (in the thorough
tier every path is re-run concretely on its model and its unsat queries are re-asked to cvc5).
All solver variables of an obligation are drawn before the first sqrt/atan2 (those create hidden
witness variables; drawing first keeps the concrete replay's numbering aligned).

Concrete replay: inputs are Fractions, so the polynomial operations are exact and compared exactly;
results that went through the real math.sqrt/cos/sin are floats and are compared with a 1e-9 tolerance.
"""
import functools
import hashlib
import importlib.util
import math
import operator
import time
import warnings
from fractions import Fraction

import desper.math as dm
from desper.math import Vec2, Vec3, Vec4, Mat3, Mat4

from symx import mathshim
from symx.proxies import SReal, SBool, SAngle, all_of

PROPERTY = 'C18'

VEC = {2: Vec2, 3: Vec3, 4: Vec4}
MAT = {3: Mat3, 4: Mat4}
AXES = 'xyzw'
TOL = 1e-9


# ---------------------------------------------------------------------------------------- inputs
def real(sp, label):
    v = sp.real(label)
    if sp.symbolic:
        sp.c18_inputs.append(v)
        return v
    sp.note('%s = %s' % (label, Fraction(v)))
    return Fraction(v)


def vec(sp, n, label):
    return VEC[n](*[real(sp, '%s.%s' % (label, AXES[i])) for i in range(n)])


def mat(sp, n, label):
    return MAT[n](tuple(real(sp, '%s[%d][%d]' % (label, i, j)) for i in range(n) for j in range(n)))


def angle(sp, label):
    """(angle object to hand to desper, its cosine, its sine) for an arbitrary angle.
    The unit circle is parametrised rationally: t = tan(angle / 2) is a real solver variable,
    cos = (1 - t^2) / (1 + t^2), sin = 2t / (1 + t^2); the one missing point (angle pi) is a flag.
    (Two free variables with c^2 + s^2 == 1 would do as well, but then the runner's request for a model
    on the dyadic grid k/1024 is a non-linear integer problem z3 gives up on; rational t gives exact
    rational points of the circle.)"""
    is_pi = sp.flag(label + ' == pi')
    t = real(sp, 'tan(%s/2)' % label)
    if is_pi:
        sp.cover('angle-pi')
        c, s = -1, 0
    else:
        sp.cover('angle-generic')
        c, s = (1 - t * t) / (1 + t * t), (2 * t) / (1 + t * t)
    if sp.symbolic:
        return SAngle(sp, c, s), c, s
    a = math.atan2(s, c)
    sp.note('%s = %r rad' % (label, a))
    return a, math.cos(a), math.sin(a)


# ---------------------------------------------------------------------------------------- comparing
def _exact(x):
    return isinstance(x, (int, Fraction))


def _scale(a, b):
    return TOL * max(1.0, abs(a), abs(b))


def eq(a, b):
    if isinstance(a, SReal) or isinstance(b, SReal):
        return a == b
    if _exact(a) and _exact(b):
        return a == b
    return abs(a - b) <= _scale(a, b)


def le(a, b):
    if isinstance(a, SReal) or isinstance(b, SReal) or (_exact(a) and _exact(b)):
        return a <= b
    return a <= b + _scale(a, b)


def imp(a, b):
    if isinstance(a, bool):
        return b if a else True
    return a.implies(b)


def conj(sp, conds):
    return all_of(sp, list(conds))


GAP = Fraction(1, 16)
BOX = 8
PROBED = {'abs', 'distance', 'normalize', 'from_magnitude', 'limit', 'from_heading', 'from_polar', 'rotate', 'ortho'}


def far(a, b):
    """a and b differ by at least GAP (symbolic operands only)."""
    if isinstance(a, SReal) or isinstance(b, SReal):
        d = a - b
        return (d >= GAP) | (d <= -GAP)
    return None


def check(sp, cond, clause, detail, gap=None, **info):
    """sp.check(cond).  Symbolically it is preceded by the same question restricted to inputs in
    [-BOX, BOX] (and, for equalities, to differences of at least GAP): logically redundant - whatever it
    finds the plain check would find - but its counterexamples are far from rounding noise, so they also
    fail in the float replay.  The plain, unrestricted validity check always follows.  Only used by the
    obligations whose concrete replay goes through floats (PROBED); the purely polynomial ones replay
    exactly on Fractions and need no help (and the box makes the Mat4 inverse queries hard for nlsat)."""
    if sp.symbolic and sp.c18_probe and isinstance(cond, SBool):
        box = conj(sp, [(x >= -BOX) & (x <= BOX) for x in sp.c18_inputs])
        bad = gap if gap is not None else ~cond
        sp.check(~(box & bad), clause, detail, **info)
    sp.check(cond, clause, detail, **info)


def total(terms):
    return functools.reduce(operator.add, list(terms))


def sq(v):
    return total(x * x for x in v)


def call(sp, what, f):
    sp.note(what)
    try:
        return f()
    except Exception as ex:         # noqa
        sp.fail('raises', '%s raised %r' % (what, ex))


def expect(sp, got, exp, what, cls=None):
    """got is a sequence (of class cls) whose entries equal the textbook entries exp."""
    exp = list(exp)
    if cls is not None:
        sp.check(type(got) is cls, 'result-type', '%s is a %s, not a %s' % (what, type(got).__name__, cls.__name__))
    sp.check(isinstance(got, tuple) and len(got) == len(exp), 'result-shape',
             '%s has %s entries, expected %d' % (what, len(got) if isinstance(got, tuple) else 'no', len(exp)))
    for i, (g, e) in enumerate(zip(got, exp)):
        check(sp, eq(g, e), 'textbook', '%s: entry %d differs from the textbook value' % (what, i),
              gap=far(g, e), entry=i)


def expect_scalar(sp, got, exp, what):
    check(sp, eq(got, exp), 'textbook', '%s differs from the textbook value' % what, gap=far(got, exp))


# ---------------------------------------------------------------------------------------- textbook
def ref_matmul(A, B, n):
    """Row-by-column product of two n x n grids written row after row."""
    return [total(A[n * i + k] * B[n * k + j] for k in range(n)) for i in range(n) for j in range(n)]


def ref_vecmat(M, v, n):
    """`M @ v` for a vector: the row vector v times the grid M (the reading under which the stated
    law (A @ B) @ v == B @ (A @ v) holds)."""
    return [total(v[i] * M[n * i + j] for i in range(n)) for j in range(n)]


def ref_identity(n):
    return [1 if i == j else 0 for i in range(n) for j in range(n)]


def _perms(n):
    if n == 1:
        yield (0,), 1
        return
    for p, s in _perms(n - 1):
        for pos in range(n):
            yield p[:pos] + (n - 1,) + p[pos:], s * (-1) ** (n - 1 - pos)


def ref_det(M, n):
    """Leibniz formula."""
    return total(functools.reduce(operator.mul, [M[n * i + p[i]] for i in range(n)]) * s for p, s in _perms(n))


# ---------------------------------------------------------------------------------------- vectors
def ob_add(sp, n):
    a, b = vec(sp, n, 'a'), vec(sp, n, 'b')
    expect(sp, call(sp, 'a + b', lambda: a + b), [x + y for x, y in zip(a, b)], 'a + b', VEC[n])


def ob_sub(sp, n):
    a, b = vec(sp, n, 'a'), vec(sp, n, 'b')
    expect(sp, call(sp, 'a - b', lambda: a - b), [x - y for x, y in zip(a, b)], 'a - b', VEC[n])


def ob_mul(sp, n):
    a, b = vec(sp, n, 'a'), vec(sp, n, 'b')
    expect(sp, call(sp, 'a * b', lambda: a * b), [x * y for x, y in zip(a, b)], 'a * b', VEC[n])


def ob_div(sp, n):
    a, b = vec(sp, n, 'a'), vec(sp, n, 'b')
    for y in b:
        sp.assume(y != 0)
    r = call(sp, 'a / b', lambda: a / b)
    # r[i] == a[i] / b[i], stated without a division
    expect(sp, VEC[n](*[g * y for g, y in zip(r, b)]) if isinstance(r, tuple) and len(r) == n else r,
           list(a), '(a / b) * b')
    check(sp, type(r) is VEC[n], 'result-type', 'a / b is a %s' % type(r).__name__)


def ob_neg(sp, n):
    a = vec(sp, n, 'a')
    expect(sp, call(sp, '-a', lambda: -a), [-x for x in a], '-a', VEC[n])


def ob_sum(sp, n):
    a, b, c = vec(sp, n, 'a'), vec(sp, n, 'b'), vec(sp, n, 'c')
    expect(sp, call(sp, 'sum([a, b, c])', lambda: sum([a, b, c])), [x + y + z for x, y, z in zip(a, b, c)],
           'sum([a, b, c])', VEC[n])


def ob_abs(sp, n):
    a = vec(sp, n, 'a')
    r = call(sp, 'abs(a)', lambda: abs(a))
    check(sp, le(0, r), 'textbook', 'abs(a) is negative')
    expect_scalar(sp, r * r, sq(a), 'abs(a) ** 2')
    if n < 4:
        m = call(sp, 'a.mag', lambda: a.mag)
        check(sp, le(0, m), 'textbook', 'a.mag is negative')
        expect_scalar(sp, m * m, sq(a), 'a.mag ** 2')


def ob_lerp(sp, n):
    a, b, t = vec(sp, n, 'a'), vec(sp, n, 'b'), real(sp, 'alpha')
    expect(sp, call(sp, 'a.lerp(b, alpha)', lambda: a.lerp(b, t)), [x + t * (y - x) for x, y in zip(a, b)],
           'a.lerp(b, alpha)', VEC[n])


def ob_scale(sp, n):
    a, k = vec(sp, n, 'a'), real(sp, 'k')
    expect(sp, call(sp, 'a.scale(k)', lambda: a.scale(k)), [x * k for x in a], 'a.scale(k)', VEC[n])


def ob_distance(sp, n):
    a, b = vec(sp, n, 'a'), vec(sp, n, 'b')
    d = call(sp, 'a.distance(b)', lambda: a.distance(b))
    check(sp, le(0, d), 'textbook', 'a.distance(b) is negative')
    expect_scalar(sp, d * d, sq([y - x for x, y in zip(a, b)]), 'a.distance(b) ** 2')


def ob_dot(sp, n):
    a, b = vec(sp, n, 'a'), vec(sp, n, 'b')
    expect_scalar(sp, call(sp, 'a.dot(b)', lambda: a.dot(b)), total(x * y for x, y in zip(a, b)), 'a.dot(b)')


def ob_cross(sp, n=3):
    a, b = vec(sp, 3, 'a'), vec(sp, 3, 'b')
    expect(sp, call(sp, 'a.cross(b)', lambda: a.cross(b)),
           [a[1] * b[2] - a[2] * b[1], a[2] * b[0] - a[0] * b[2], a[0] * b[1] - a[1] * b[0]], 'a.cross(b)', Vec3)


def _clamp_spec(sp, r, x, lo, hi, what):
    check(sp, imp(x < lo, eq(r, lo)), 'textbook', '%s: below the minimum but not the minimum' % what)
    check(sp, imp(x > hi, eq(r, hi)), 'textbook', '%s: above the maximum but not the maximum' % what)
    inside = (lo <= x) & (x <= hi) if isinstance(lo <= x, SBool) else (lo <= x and x <= hi)
    check(sp, imp(inside, eq(r, x)), 'textbook', '%s: inside the range but changed' % what)


def ob_clamp_fn(sp, n=0):
    x, lo, hi = real(sp, 'x'), real(sp, 'lo'), real(sp, 'hi')
    sp.assume(lo <= hi)
    r = call(sp, 'clamp(x, lo, hi)', lambda: dm.clamp(x, lo, hi))
    _clamp_spec(sp, r, x, lo, hi, 'clamp(x, lo, hi)')


def ob_clamp(sp, n):
    a, lo, hi = vec(sp, n, 'a'), real(sp, 'lo'), real(sp, 'hi')
    sp.assume(lo <= hi)
    r = call(sp, 'a.clamp(lo, hi)', lambda: a.clamp(lo, hi))
    check(sp, type(r) is VEC[n] and len(r) == n, 'result-type', 'a.clamp(lo, hi) is not a Vec%d' % n)
    for i in range(n):
        _clamp_spec(sp, r[i], a[i], lo, hi, 'a.clamp(lo, hi).%s' % AXES[i])


def _parallel_same_sense(sp, r, v, what, strict):
    n = len(v)
    for i in range(n):
        for j in range(i + 1, n):
            check(sp, eq(r[i] * v[j] - r[j] * v[i], 0), 'direction', '%s is not parallel to the vector' % what,
                  gap=far(r[i] * v[j] - r[j] * v[i], 0))
    d = total(x * y for x, y in zip(r, v))
    check(sp, (d > 0) if strict else le(0, d), 'direction', '%s points the opposite way' % what)


def ob_normalize(sp, n):
    v = vec(sp, n, 'v')
    r = call(sp, 'v.normalize()', lambda: v.normalize())
    check(sp, type(r) is VEC[n] and len(r) == n, 'result-type', 'v.normalize() is not a Vec%d' % n)
    if sq(v) == 0:
        sp.cover('normalize-zero')
        expect(sp, r, [0] * n, 'normalize of the zero vector')
    else:
        sp.cover('normalize-nonzero')
        expect_scalar(sp, sq(r), 1, '|v.normalize()| ** 2')
        _parallel_same_sense(sp, r, v, 'v.normalize()', True)


def ob_from_magnitude(sp, n):
    v, m = vec(sp, n, 'v'), real(sp, 'm')
    sp.assume(m >= 0)
    sp.assume(sq(v) != 0)
    r = call(sp, 'v.from_magnitude(m)', lambda: v.from_magnitude(m))
    check(sp, type(r) is VEC[n] and len(r) == n, 'result-type', 'v.from_magnitude(m) is not a Vec%d' % n)
    expect_scalar(sp, sq(r), m * m, '|v.from_magnitude(m)| ** 2')
    _parallel_same_sense(sp, r, v, 'v.from_magnitude(m)', False)


def ob_limit(sp, n):
    v, m = vec(sp, n, 'v'), real(sp, 'm')
    sp.assume(m >= 0)
    r = call(sp, 'v.limit(m)', lambda: v.limit(m))
    check(sp, isinstance(r, tuple) and len(r) == n, 'result-shape', 'v.limit(m) is not a %d-vector' % n)
    sp.cover('limit-returned-self' if r is v else 'limit-rescaled')
    check(sp, le(sq(r), m * m), 'limit-never-longer', 'v.limit(m) is longer than m')
    short = le(sq(v), m * m)
    check(sp, imp(short, conj(sp, [eq(x, y) for x, y in zip(r, v)])), 'limit-short-unchanged',
             '|v| <= m but v.limit(m) differs from v')


def ob_from_heading(sp, n=2):
    v = vec(sp, 2, 'v')
    a, c, s = angle(sp, 'heading')
    r = call(sp, 'v.from_heading(heading)', lambda: v.from_heading(a))
    check(sp, type(r) is Vec2 and len(r) == 2, 'result-type', 'v.from_heading(h) is not a Vec2')
    expect_scalar(sp, sq(r), sq(v), '|v.from_heading(h)| ** 2 (magnitude must not change)')
    check(sp, eq(r[0] * s - r[1] * c, 0), 'direction', 'v.from_heading(h) is not on the line of heading h',
          gap=far(r[0] * s - r[1] * c, 0))
    check(sp, le(0, r[0] * c + r[1] * s), 'direction', 'v.from_heading(h) points away from heading h')


def ob_from_polar(sp, n=2):
    m = real(sp, 'mag')
    a, c, s = angle(sp, 'angle')
    expect(sp, call(sp, 'Vec2.from_polar(mag, angle)', lambda: Vec2.from_polar(m, a)), [m * c, m * s],
           'Vec2.from_polar(mag, angle)', Vec2)


def ob_rotate(sp, n=2):
    v = vec(sp, 2, 'v')
    a, c, s = angle(sp, 'angle')
    r = call(sp, 'v.rotate(angle)', lambda: v.rotate(a))
    sp.cover('rotate-zero' if sq(v) == 0 else 'rotate-nonzero')
    expect(sp, r, [v[0] * c - v[1] * s, v[0] * s + v[1] * c], 'v.rotate(angle)', Vec2)


# ---------------------------------------------------------------------------------------- swizzles
def ob_swizzle(sp, n):
    v = vec(sp, n, 'v')
    L = 1 + sp.choose(4, 'length')
    idx = [sp.choose(n, 'letter%d' % i) for i in range(L)]
    name = ''.join(AXES[i] for i in idx)
    r = call(sp, 'v.%s' % name, lambda: getattr(v, name))
    if L == 1:
        sp.cover('component')
        expect_scalar(sp, r, v[idx[0]], 'v.%s' % name)
    else:
        sp.cover('swizzle')
        expect(sp, r, [v[i] for i in idx], 'v.%s' % name, VEC[L])


def _fresh_math():
    """A private second copy of desper/math.py (own classes, own module-level state), so that what an
    obligation observes does not depend on which other obligations ran earlier in this worker process."""
    spec = importlib.util.spec_from_file_location('desper_math_private_copy', dm.__file__)
    mod = importlib.util.module_from_spec(spec)
    spec.loader.exec_module(mod)
    return mod


SHARED_NAMES = ['xz', 'zyx', 'xyzw', 'wx', 'yzw', 'zw']
_MISSING = object()


def ob_swizzle_shared(sp, n=0):
    """One name looked up on vectors of all three classes, in both orders: a name with z (w) is a swizzle of
    Vec3/Vec4 (Vec4) whatever was asked of the smaller classes before, and stays absent on the smaller ones
    whatever the bigger ones answered before (state shared between the classes)."""
    m = _fresh_math()
    cls = {2: m.Vec2, 3: m.Vec3, 4: m.Vec4}
    vs = {k: cls[k](*[real(sp, 'v%d.%s' % (k, AXES[i])) for i in range(k)]) for k in (2, 3, 4)}
    name = SHARED_NAMES[sp.choose(len(SHARED_NAMES), 'name')]
    small_first = sp.choose(2, 'order') == 0
    need = 4 if 'w' in name else 3
    sp.cover('small-class-first' if small_first else 'big-class-first')

    def small():
        for k in range(2, need):
            r = call(sp, 'getattr(Vec%d(...), %r, <missing>)' % (k, name), lambda: getattr(vs[k], name, _MISSING))
            check(sp, r is _MISSING and not hasattr(vs[k], name), 'not-a-component',
                  'Vec%d has no component %s, yet .%s is an attribute' % (k, 'w' if need == 4 and k == 3 else 'z/w', name))

    def big():
        for k in range(need, 5):
            r = call(sp, 'Vec%d(...).%s' % (k, name), lambda: getattr(vs[k], name))
            expect(sp, r, [vs[k][AXES.index(c)] for c in name], 'Vec%d(...).%s' % (k, name), cls[len(name)])

    for step in ((small, big) if small_first else (big, small)):
        step()


# ---------------------------------------------------------------------------------------- matrices
def ob_mat_add(sp, n):
    A, B = mat(sp, n, 'A'), mat(sp, n, 'B')
    expect(sp, call(sp, 'A + B', lambda: A + B), [x + y for x, y in zip(A, B)], 'A + B', MAT[n])


def ob_mat_sub(sp, n):
    A, B = mat(sp, n, 'A'), mat(sp, n, 'B')
    expect(sp, call(sp, 'A - B', lambda: A - B), [x - y for x, y in zip(A, B)], 'A - B', MAT[n])


def ob_mat_neg(sp, n):
    A = mat(sp, n, 'A')
    expect(sp, call(sp, '-A', lambda: -A), [-x for x in A], '-A', MAT[n])
    expect(sp, call(sp, '+A', lambda: +A), list(A), '+A', MAT[n])


def ob_matmul(sp, n):
    A, B = mat(sp, n, 'A'), mat(sp, n, 'B')
    expect(sp, call(sp, 'A @ B', lambda: A @ B), ref_matmul(A, B, n), 'A @ B', MAT[n])


def ob_matvec(sp, n):
    A, v = mat(sp, n, 'A'), vec(sp, n, 'v')
    expect(sp, call(sp, 'A @ v', lambda: A @ v), ref_vecmat(A, v, n), 'A @ v', VEC[n])


def ob_assoc(sp, n):
    A, B, C = mat(sp, n, 'A'), mat(sp, n, 'B'), mat(sp, n, 'C')
    lhs = call(sp, '(A @ B) @ C', lambda: (A @ B) @ C)
    rhs = call(sp, 'A @ (B @ C)', lambda: A @ (B @ C))
    expect(sp, lhs, list(rhs), '(A @ B) @ C versus A @ (B @ C)', MAT[n])


def ob_identity(sp, n):
    A, v = mat(sp, n, 'A'), vec(sp, n, 'v')
    expect(sp, call(sp, 'I @ A', lambda: MAT[n]() @ A), list(A), 'I @ A', MAT[n])
    expect(sp, call(sp, 'A @ I', lambda: A @ MAT[n]()), list(A), 'A @ I', MAT[n])
    expect(sp, call(sp, 'I @ v', lambda: MAT[n]() @ v), list(v), 'I @ v', VEC[n])
    expect(sp, MAT[n](), ref_identity(n), 'the default matrix', MAT[n])


def ob_law(sp, n):
    A, B, v = mat(sp, n, 'A'), mat(sp, n, 'B'), vec(sp, n, 'v')
    lhs = call(sp, '(A @ B) @ v', lambda: (A @ B) @ v)
    rhs = call(sp, 'B @ (A @ v)', lambda: B @ (A @ v))
    expect(sp, lhs, list(rhs), '(A @ B) @ v versus B @ (A @ v)', VEC[n])


def ob_transpose(sp, n=4):
    A = mat(sp, 4, 'A')
    expect(sp, call(sp, 'A.transpose()', lambda: A.transpose()), [A[4 * j + i] for i in range(4) for j in range(4)],
           'A.transpose()', Mat4)


def ob_inverse(sp, n=4):
    M = mat(sp, 4, 'M')
    with warnings.catch_warnings(record=True) as caught:
        warnings.simplefilter('always')
        inv = call(sp, '~M', lambda: ~M)
    check(sp, type(inv) is Mat4 and len(inv) == 16, 'result-type', '~M is not a Mat4')
    if ref_det(M, 4) == 0:
        sp.cover('singular')
        check(sp, inv is M or conj(sp, [eq(x, y) for x, y in zip(inv, M)]), 'singular-unchanged',
                 'det(M) == 0 but ~M is not M unchanged')
        check(sp, len(caught) >= 1, 'singular-warning', 'det(M) == 0 but ~M gave no warning')
    else:
        sp.cover('nonsingular')
        expect(sp, tuple(ref_matmul(M, inv, 4)), ref_identity(4), 'M @ ~M (det(M) != 0)')
        expect(sp, tuple(ref_matmul(inv, M, 4)), ref_identity(4), '~M @ M (det(M) != 0)')


def ob_inverse_temporaries(sp, n=4, reps=6):
    """~M for matrices that only live as temporaries, one after the other (each is freed before the next
    is built, so CPython hands the next one the same address): every result is the inverse of *its* matrix.
    Structured matrices (translations, determinant 1) keep the queries linear."""
    ts = [vec(sp, 3, 't%d' % k) for k in range(reps)]
    invs = []
    for k in range(reps):
        invs.append(call(sp, '~Mat4.from_translation(t%d)' % k, lambda: ~Mat4.from_translation(ts[k])))
    for k in range(reps):
        M = [1, 0, 0, 0, 0, 1, 0, 0, 0, 0, 1, 0, ts[k][0], ts[k][1], ts[k][2], 1]
        check(sp, type(invs[k]) is Mat4 and len(invs[k]) == 16, 'result-type', '~M is not a Mat4')
        expect(sp, tuple(ref_matmul(M, invs[k], 4)), ref_identity(4), 'M%d @ ~M%d (translation by t%d)' % (k, k, k))
        expect(sp, tuple(ref_matmul(invs[k], M, 4)), ref_identity(4), '~M%d @ M%d (translation by t%d)' % (k, k, k))


def _point(sp):
    return [real(sp, 'p.' + a) for a in AXES]


def ob_from_translation(sp, n=4):
    t, p = vec(sp, 3, 't'), _point(sp)
    M = call(sp, 'Mat4.from_translation(t)', lambda: Mat4.from_translation(t))
    check(sp, type(M) is Mat4 and len(M) == 16, 'result-type', 'from_translation(t) is not a Mat4')
    expect(sp, tuple(ref_vecmat(M, p, 4)), [p[0] + p[3] * t[0], p[1] + p[3] * t[1], p[2] + p[3] * t[2], p[3]],
           'from_translation(t) applied to (x, y, z, w)')
    expect(sp, call(sp, 'from_translation(t) @ Vec4(p)', lambda: M @ Vec4(*p)),
           [p[0] + p[3] * t[0], p[1] + p[3] * t[1], p[2] + p[3] * t[2], p[3]], 'from_translation(t) @ p', Vec4)


def ob_from_scale(sp, n=4):
    s, p = vec(sp, 3, 's'), _point(sp)
    M = call(sp, 'Mat4.from_scale(s)', lambda: Mat4.from_scale(s))
    check(sp, type(M) is Mat4 and len(M) == 16, 'result-type', 'from_scale(s) is not a Mat4')
    expect(sp, tuple(ref_vecmat(M, p, 4)), [p[0] * s[0], p[1] * s[1], p[2] * s[2], p[3]],
           'from_scale(s) applied to (x, y, z, w)')


def ob_translate(sp, n=4):
    A, t, p = mat(sp, 4, 'A'), vec(sp, 3, 't'), _point(sp)
    M = call(sp, 'A.translate(t)', lambda: A.translate(t))
    check(sp, type(M) is Mat4 and len(M) == 16, 'result-type', 'A.translate(t) is not a Mat4')
    q = ref_vecmat(A, p, 4)
    expect(sp, tuple(ref_vecmat(M, p, 4)), [q[0] + q[3] * t[0], q[1] + q[3] * t[1], q[2] + q[3] * t[2], q[3]],
           'A.translate(t) applied to p versus (A applied to p) moved by t')
    I = call(sp, 'Mat4().translate(t)', lambda: Mat4().translate(t))
    expect(sp, tuple(ref_vecmat(I, p, 4)), [p[0] + p[3] * t[0], p[1] + p[3] * t[1], p[2] + p[3] * t[2], p[3]],
           'Mat4().translate(t) applied to (x, y, z, w)')


def ob_ortho(sp, n=4):
    l, r, b, t, zn, zf = [real(sp, k) for k in ('left', 'right', 'bottom', 'top', 'z_near', 'z_far')]
    p = _point(sp)
    sp.assume(r != l)
    sp.assume(t != b)
    sp.assume(zf != zn)
    M = call(sp, 'Mat4.orthogonal_projection(...)', lambda: Mat4.orthogonal_projection(l, r, b, t, zn, zf))
    check(sp, type(M) is Mat4 and len(M) == 16, 'result-type', 'orthogonal_projection(...) is not a Mat4')
    q = ref_vecmat(M, p, 4)
    # the box [l, r] x [b, t] x [-near, -far] goes to the cube [-1, 1]^3 (glOrtho), stated without division
    expect(sp, (q[0] * (r - l), q[1] * (t - b), q[2] * (zf - zn), q[3]),
           [2 * p[0] - (r + l) * p[3], 2 * p[1] - (t + b) * p[3], -2 * p[2] - (zf + zn) * p[3], p[3]],
           'orthogonal_projection applied to (x, y, z, w), times the box size')


# ---------------------------------------------------------------------------------------- registry
def _vec_obs(n):
    obs = [('add', ob_add), ('sub', ob_sub), ('mul', ob_mul), ('div', ob_div), ('neg', ob_neg), ('sum', ob_sum),
           ('abs', ob_abs), ('lerp', ob_lerp), ('scale', ob_scale), ('distance', ob_distance), ('dot', ob_dot),
           ('clamp', ob_clamp), ('normalize', ob_normalize)]
    if n == 2:
        obs += [('from_magnitude', ob_from_magnitude), ('limit', ob_limit), ('from_heading', ob_from_heading),
                ('from_polar', ob_from_polar), ('rotate', ob_rotate), ('clamp_fn', ob_clamp_fn)]
    if n == 3:
        obs += [('cross', ob_cross), ('from_magnitude', ob_from_magnitude), ('limit', ob_limit)]
    return [('vec%d.%s' % (n, k), functools.partial(f, n=n)) for k, f in obs]


def _mat_obs(n):
    obs = [('add', ob_mat_add), ('sub', ob_mat_sub), ('neg', ob_mat_neg), ('matmul', ob_matmul),
           ('matvec', ob_matvec), ('assoc', ob_assoc), ('identity', ob_identity), ('law', ob_law)]
    if n == 4:
        obs += [('transpose', ob_transpose), ('inverse', ob_inverse), ('from_translation', ob_from_translation),
                ('from_scale', ob_from_scale), ('translate', ob_translate), ('ortho', ob_ortho),
                ('inverse_temporaries', ob_inverse_temporaries)]
    return [('mat%d.%s' % (n, k), functools.partial(f, n=n)) for k, f in obs]


OBLIGATIONS = {
    'vec2': _vec_obs(2),
    'vec3': _vec_obs(3),
    'vec4': _vec_obs(4),
    'mat3': _mat_obs(3),
    'mat4': _mat_obs(4),
    'swizzle': [('swizzle.vec%d' % n, functools.partial(ob_swizzle, n=n)) for n in (2, 3, 4)] +
               [('swizzle.shared', ob_swizzle_shared)],
}
N_OBLIGATIONS = sum(len(v) for v in OBLIGATIONS.values())


# ---------------------------------------------------------------------------------------- cvc5
_CVC5 = dict(seen=set(), agree=0, timeout=0, skipped=0, spent=0.0)
CVC5_QUERY_MS = 20000
CVC5_BUDGET_S = 120.0        # per obligation


def _cvc5_recheck(sp):
    """Re-ask every distinct query z3 answered `unsat` on this path to cvc5.  sat => harness error."""
    import z3
    import cvc5
    log = sp.unsat_log
    while log:
        pc, extra = log.pop()
        if _CVC5['spent'] > CVC5_BUDGET_S:
            _CVC5['skipped'] += 1
            continue
        s = z3.Solver()
        s.add(*pc)
        if extra is not None:
            s.add(extra)
        text = '(set-logic ALL)\n' + s.to_smt2()
        h = hashlib.sha1(text.encode()).hexdigest()
        if h in _CVC5['seen']:
            continue
        _CVC5['seen'].add(h)
        t0 = time.time()
        slv = cvc5.Solver()
        slv.setOption('tlimit-per', str(CVC5_QUERY_MS))
        ip = cvc5.InputParser(slv)
        ip.setStringInput(cvc5.InputLanguage.SMT_LIB_2_6, text, 'q')
        sm = ip.getSymbolManager()
        answer = ''
        while True:
            cmd = ip.nextCommand()
            if cmd.isNull():
                break
            out = cmd.invoke(slv, sm).strip()
            if out:
                answer = out
        _CVC5['spent'] += time.time() - t0
        if answer == 'unsat':
            _CVC5['agree'] += 1
        elif answer == 'sat':
            raise RuntimeError('cvc5 answers sat where z3 answered unsat:\n' + text[:2000])
        else:
            _CVC5['timeout'] += 1
    sp.note('cvc5: %d unsat answers confirmed, %d gave up, %.1fs' % (_CVC5['agree'], _CVC5['timeout'], _CVC5['spent']))


# ---------------------------------------------------------------------------------------- harness
ALL = dict(kv for fam in OBLIGATIONS.values() for kv in fam)


def h_obligation(sp, ob, cvc5=False):
    if cvc5 and sp.symbolic and sp.unsat_log is None:
        sp.unsat_log = []
    sp.note('obligation %s' % ob)
    sp.c18_inputs = []
    sp.c18_probe = ob.split('.')[1] in PROBED
    with mathshim.installed(sp, dm):
        ALL[ob](sp)
    if cvc5 and sp.symbolic and not sp.twin:
        _cvc5_recheck(sp)
    sp.done()


def _entry(sp=None, *, ob, cvc5=False, tier=None, seed=0, deadline=None):
    """Called with a space (concrete replay of a counterexample): run the obligation on it.
    Called without (a `kind='custom'` job on the runner's process pool): explore the obligation's whole
    decision tree here with the standard explorer.  Why not the runner's own splitter: it shards on
    `sp.choose` decisions, whose Int variables stay in every later query and take z3 off its pure-NRA
    route (nlsat) - measured: `det(M) != 0` alone then sometimes runs into the 30 s cap."""
    if sp is not None:
        return h_obligation(sp, ob=ob, cvc5=cvc5)
    from symx import run
    spec = HARNESSES[ob]
    fn = functools.partial(h_obligation, ob=ob, cvc5=cvc5)
    known = run.load_known(PROPERTY)
    _CVC5.update(agree=0, timeout=0, skipped=0, spent=0.0)
    tw = run.explore(fn, {}, spec, seed=seed, twin=True, known_entries=known, hname=ob, deadline=deadline,
                     stop_on_violation=False)
    res = run.explore(fn, {}, spec, seed=seed, known_entries=known, hname=ob, deadline=deadline,
                      collect_funcs=True, concolic=(tier == 'thorough' and spec.get('concolic', False)))
    res.pop('cuts', None)
    if cvc5:        # numbers of distinct z3-unsat queries re-asked to cvc5 (not path counts)
        res['covers'].update({'cvc5-agrees-unsat': _CVC5['agree'], 'cvc5-gave-up': _CVC5['timeout'],
                              'cvc5-not-asked-budget-spent': _CVC5['skipped']})
    res['errors'].extend(tw['errors'])
    if not tw['covers'].get('twin-reached') and not tw['violations'] and not tw['known']:
        res['errors'].append('reachability twin not refuted (the obligation never reaches done())')
    return res


_EXTRA_TAGS = {
    'vec2.normalize': ['normalize-zero', 'normalize-nonzero'], 'vec3.normalize': ['normalize-zero', 'normalize-nonzero'],
    'vec4.normalize': ['normalize-zero', 'normalize-nonzero'],
    'vec2.limit': ['limit-returned-self', 'limit-rescaled'], 'vec3.limit': ['limit-returned-self', 'limit-rescaled'],
    'vec2.rotate': ['rotate-zero', 'rotate-nonzero', 'angle-pi', 'angle-generic'],
    'vec2.from_heading': ['angle-pi', 'angle-generic'], 'vec2.from_polar': ['angle-pi', 'angle-generic'],
    'mat4.inverse': ['singular', 'nonsingular'],
    'swizzle.vec2': ['swizzle', 'component'], 'swizzle.vec3': ['swizzle', 'component'],
    'swizzle.vec4': ['swizzle', 'component'],
    'swizzle.shared': ['small-class-first', 'big-class-first'],
}
HARNESSES = {ob: dict(kind='custom', fn=functools.partial(_entry, ob=ob), nonlinear=True, concolic=True,
                      timeout_ms=30000, nontrivial=['end'], required=['end'] + _EXTRA_TAGS.get(ob, []))
             for ob in ALL}

TIERS = {
    'quick': [(ob, {}) for ob in ALL],
    'thorough': [(ob, dict(cvc5=True)) for ob in ALL],
}
BUDGET_S = {'quick': 300, 'thorough': 1500}

EXPLANATION = (
    'Symbolic execution of the real desper/math.py on exact real solver variables: every vector/matrix entry and '
    'every scalar is a z3 Real, angles are arbitrary points of the unit circle, sqrt is its defining witness.  For '
    'each of the %d obligations the harness writes the textbook expression (entrywise formulas, row-by-column sums, '
    'Leibniz determinant, glOrtho, rotation formula) and asks z3 (nlsat, fresh solver per query) whether any real '
    'values make the result of the real code differ from it; every branch inside desper (zero vector, singular '
    'matrix, limit, clamp, zero divisor) is decided by the solver and both sides are explored.  Swizzles: the '
    'letters of the attribute name are solver choices, all 2+4+8+16, 3+9+27+81 and 4+16+64+256 names are visited.  '
    'The claims have no bound on the values.' % N_OBLIGATIONS)
RULE = ('one evaluation = one feasible path of one obligation (obligation, branch outcomes inside desper, swizzle '
        'name); every completed path discharged all its validity queries; all paths are non-trivial (each belongs to '
        'exactly one named obligation)')
BOUNDS = {
    'quick': 'no bound on values (all reals); dimensions are those of the classes (Vec2/3/4, Mat3, Mat4); '
             'all %d obligations, all 490 component/swizzle names' % N_OBLIGATIONS,
    'thorough': 'as quick; in addition every path is re-run concretely on its model (Fractions, floats after sqrt/trig) '
                'and every distinct unsat answer of z3 is re-asked to cvc5 1.4 (20 s per query, 120 s per obligation; '
                'a cvc5 `sat` is a harness error, a give-up is counted)',
}
ASSUMPTIONS = [
    'numbers are exact reals: math.sqrt is the exact non-negative root, cos/sin are the coordinates of an arbitrary '
    'point of the unit circle ((1-t^2)/(1+t^2), 2t/(1+t^2)) for real t, or (-1, 0)), atan2(y, x) is the angle of '
    '(x, y) (angle 0 for the origin), angle addition is exact',
    '`M @ v` with v a Vec is read as the row vector v times the grid M - the reading under which the stated law '
    '(A @ B) @ v == B @ (A @ v) and the translation constructors hold; A.translate(t) is read as "A, then move by t"',
    'clamp: min_val <= max_val; entrywise division: no divisor entry is zero (ZeroDivisionError otherwise, as for floats)',
    'from_magnitude and limit: the magnitude argument is >= 0; from_magnitude of the zero vector is left open '
    '(it has no direction to keep) and is not examined',
    'limit: only the two stated facts are demanded (result never longer than m; vectors with |v| <= m unchanged)',
    'orthogonal_projection: right != left, top != bottom, z_far != z_near; "the stated transform" is glOrtho '
    '(the box [l,r]x[b,t]x[-near,-far] goes to the cube [-1,1]^3), checked on a symbolic homogeneous point',
    'singular Mat4: "unchanged" accepts M itself or an entrywise equal matrix; at least one warning is demanded',
    'a name containing z (w) is not an attribute of a Vec2 (Vec2/Vec3): checked only in swizzle.shared, where the same '
    'name is looked up on all three classes in both orders, on a private copy of the module',
    'inverse_temporaries relies on CPython reusing the address of a just-freed Mat4 (6 temporaries in a row)',
    'results are checked to be of the natural class (Vec_n / Mat_n); swizzles of length L give a Vec_L',
]
OUTSIDE = [
    'floating-point rounding and libm accuracy (the "up to a tolerance over floats" part of the quantifier): not '
    'decided; the exact-real claim is what is made',
    '__round__, perspective_projection, look_at, look_at_direction, from_rotation, Mat3.scale/translate/rotate/shear, '
    'Mat4.rotate/scale, row/column, heading: not in the statement',
    'attribute names containing other letters than the components, or longer than 4 letters (AttributeError path)',
    'operands of the wrong size or type (asserts), nan/inf',
]
TRUSTED = ['symx.mathshim: sqrt witness and unit-circle angle algebra standing in for libm inside desper.math']


TECHNIQUE = 'SMT validity (z3 nlsat over NRA; unsat answers re-checked with cvc5) of textbook identities obtained by symbolic execution of the real desper.math on real-valued proxies'
