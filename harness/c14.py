"""C14 — SimpleLoop feeds exact time deltas and stops cleanly on Quit.

A real `desper.SimpleLoop(time_function=tf)` is started 1-3 times in a row on the same object.  `tf` is a
closure that hands out symbolic clock readings t0 <= t1 <= ... (t_k = t_{k-1} + d_k, d_k >= 0, all SReal).
Every world carries `n_procs` script processors; at every process() call the processor first checks its dt
against the readings and then performs a symbolic action: nothing / raise Quit / quit_loop() /
quit_loop(current world) / quit_loop(other world) / switch to the other world / raise ValueError / (in the
`direct` configurations) call the public loop.switch(other handle) in mid-frame, which returns normally.
After each start() the harness checks how it ended.
"""
import desper

PROPERTY = 'C14'


class Runaway(Exception):
    """The loop kept running after the script asked it to stop."""


class ListenerBoom(ValueError):
    """Raised by an on_quit listener (scripted fault)."""


class ScriptOverrun(RuntimeError):
    """Harness bug guard: more frames than the script provides."""


class SwitchBoom(ValueError):
    """Raised while the loop performs a world switch (failing load() or failing listener of the entered world)."""


@desper.event_handler('on_quit', 'on_switch_in', 'poke')
class QuitListener:
    def __init__(self, ctx, tag):
        self.ctx = ctx
        self.tag = tag
        self.world = None

    def on_quit(self, *args):
        ctx = self.ctx
        ctx.quits.append(self.world)
        if ctx.boom_world is self.world:
            # scripted fault: this listener fails while quit_loop is delivering on_quit
            ex = ListenerBoom('on_quit listener of %s failed' % self.tag)
            ctx.boom_world = None
            ctx.stop = ('raise', ex, self.world)
            ctx.sp.cover('listener-raises')
            ctx.sp.note('      on_quit listener of %s raises %r' % (self.tag, ex))
            raise ex


    def on_switch_in(self, *args):
        self.switch_fault('on_switch_in')

    def poke(self, *args):
        self.switch_fault('poke')

    def switch_fault(self, event):
        ctx = self.ctx
        if ctx.swboom_world is self.world:
            # scripted fault: the entered world's listener fails when the loop re-enables its dispatching
            ex = SwitchBoom('%s listener of %s failed' % (event, self.tag))
            ctx.swboom_world = None
            ctx.stop = ('raise', ex)
            ctx.resync = True
            ctx.sp.cover('switch-listener-raises')
            ctx.sp.note('      %s listener of %s raises %r' % (event, self.tag, ex))
            raise ex


class FailHandle(desper.Handle):
    """A world handle whose load() always fails."""

    def __init__(self, ctx):
        self.ctx = ctx

    def load(self):
        ctx = self.ctx
        ex = SwitchBoom('load() failed')
        ctx.stop = ('raise', ex)
        ctx.resync = True
        ctx.sp.cover('switch-load-raises')
        ctx.sp.note('      load() of the target handle raises %r' % (ex,))
        raise ex


class ScriptProc(desper.Processor):
    index = 0

    def __init__(self, ctx):
        self.ctx = ctx

    def process(self, dt):
        self.ctx.on_process(self, dt)


class P0(ScriptProc):
    index = 0


class P1(ScriptProc):
    index = 1


class P2(ScriptProc):
    index = 2


PROCS = [P0, P1, P2]


class BoolFalseWorld(desper.World):
    """A perfectly good world that happens to be falsy."""

    def __bool__(self):
        return False


class LenZeroWorld(desper.World):
    """Falsy through __len__ (e.g. 'number of game objects', none yet)."""

    def __len__(self):
        return 0


WORLD_CLASSES = {None: desper.World, 'bool': BoolFalseWorld, 'len': LenZeroWorld}


class PlainHandle(desper.Handle):
    loads = 0
    first = None

    def __init__(self, ctx, tag):
        self.ctx = ctx
        self.tag = tag

    def load(self):
        # no call in this harness passes clear_current / clear_next (all are omitted, i.e. False):
        # a handle must therefore never be loaded a second time
        self.loads += 1
        if self.loads > 1:
            self.ctx.sp.fail('handle-reloaded', 'handle %s is loaded a second time although no clear flag was ever '
                             'passed to switch() / SwitchWorld / loop.switch' % self.tag)
        w = WORLD_CLASSES[self.ctx.falsy]()
        self.first = w
        for P in PROCS[:self.ctx.n_procs]:
            w.add_processor(P(self.ctx), P.index)
        lst = QuitListener(self.ctx, self.tag)
        lst.world = w
        w.create_entity(lst)
        self.ctx.keep.append(lst)
        self.ctx.names.append((w, self.tag))
        return w


TERMINATORS = ['quit', 'quit_loop', 'quit_loop_cur', 'raise']


class Ctx:
    def __init__(self, sp, frames, n_procs, n_worlds, raw, direct=False, lraise=False, swfail=False):
        self.sp = sp
        self.frames = frames
        self.n_procs = n_procs
        self.n_worlds = n_worlds
        self.raw = raw
        self.direct = direct
        self.lraise = lraise
        self.swfail = swfail
        self.falsy = None           # None | 'bool' | 'len': worlds are instances of a falsy World subclass
        self.swboom_world = None    # world whose listener is scripted to fail during the switch into it
        self.resync = False         # a switch failed: current world is don't-care, the harness re-seats it
        self.fail_handle = FailHandle(self)
        self.boom_world = None      # world whose on_quit listener is scripted to raise
        self.keep = []
        self.names = []
        self.quits = []             # worlds whose listener heard on_quit, in order
        self.ticks = []             # every clock reading so far (all starts)
        self.handles = [PlainHandle(self, 'w%d' % i) for i in range(n_worlds)]
        self.cur = 0
        self.start_no = -1
        self.loop = None
        # per start
        self.readings = 0           # readings taken since this start
        self.calls = 0              # processor calls since the last reading
        self.stop = None            # None | ('quit', target or None, enabled) | ('raise', exc)
        self.switched = False
        self.abandoned = False      # the running frame was left by a switch exception
        self.frame_world = None     # the world this iteration processes (current world when it began)

    def show(self, x):
        """Cheap rendering: z3's pretty printer dominated the run time; replays show the numbers."""
        return x if not self.sp.symbolic or isinstance(x, (int, float)) else '<symbolic>'

    def name(self, w):
        for x, tag in self.names:
            if x is w:
                return tag
        return '?'

    # ---------------------------------------------------------------- clock
    def tf(self):
        sp = self.sp
        if self.stop is not None:
            raise Runaway('clock read after the script asked to stop')
        if self.readings > 0:
            sp.check(self.calls >= 1, 'process-every-iteration',
                     'start %d: a new clock reading was taken but no processor ran since the previous one'
                     % self.start_no)
            if not self.abandoned:
                sp.check(self.calls == self.n_procs, 'frame-runs-to-its-end',
                         'start %d: nothing was raised in the previous frame but only %d of %d processors ran'
                         % (self.start_no, self.calls, self.n_procs))
        if self.readings >= self.frames:
            raise ScriptOverrun('frame %d of %d' % (self.readings, self.frames))
        k = len(self.ticks)
        if k == 0:
            t = sp.real('t0')
        else:
            d = sp.real('d%d' % k, lo=0)
            t = self.ticks[-1] + d
        self.ticks.append(t)
        self.readings += 1
        self.calls = 0
        self.abandoned = False
        self.swboom_world = None
        sp.note('start %d frame %d: clock reading #%d = %s' % (self.start_no, self.readings - 1, k, self.show(t)))
        return t

    # ---------------------------------------------------------------- processors
    def on_process(self, proc, dt):
        sp = self.sp
        if self.stop is not None:
            raise Runaway('processor %d ran after the script asked to stop' % proc.index)
        where = 'start %d frame %d proc %d' % (self.start_no, self.readings - 1, proc.index)
        sp.check(self.readings >= 1, 'process-before-reading', where)
        sp.check(proc.index == self.calls, 'process-once-per-iteration',
                 '%s: processor call #%d of this iteration (world processed twice, or a processor skipped)'
                 % (where, self.calls))
        self.calls += 1
        cur_world = self.handles[self.cur]()
        if self.calls == 1:
            # the iteration processes the world that is current when it begins; a direct loop.switch() later in
            # the frame changes current_world at once but the rest of this frame still belongs to this world
            self.frame_world = cur_world
        exp_world = self.frame_world
        sp.check(proc.world is exp_world, 'processes-current-world',
                 '%s: process() reached world %s, expected %s' % (where, self.name(proc.world), self.name(exp_world)))
        sp.check(self.loop.current_world is cur_world, 'current-world-during-frame', where)
        sp.check(self.loop.current_world_handle is self.handles[self.cur], 'current-handle-during-frame', where)
        # ---- dt oracle
        if self.readings == 1:
            ok = (dt == 0)
            sp.note('%s: dt = %s (first iteration after start, want 0)' % (where, self.show(dt)))
            if self.start_no > 0:
                sp.cover('restart')
                if self.prev_outcome == 'raise':
                    sp.cover('restart-after-exception')
                else:
                    sp.cover('restart-after-quit')
            sp.check(ok, 'first-dt-zero', '%s: first dt after start() is %s, not 0' % (where, self.show(dt)))
        else:
            exp = self.ticks[-1] - self.ticks[-2]
            sp.note('%s: dt = %s (want %s)' % (where, self.show(dt), self.show(exp)))
            if self.switched:
                sp.cover('dt-across-switch')
            if self.direct_switched:
                sp.cover('dt-across-direct-switch')
            sp.cover('dt-later-frame')
            sp.check(dt == exp, 'dt-exact', '%s: dt %s is not the difference of the last two readings %s'
                     % (where, self.show(dt), self.show(exp)))
        # ---- action
        last_frame = self.readings >= self.frames
        last_proc = proc.index == self.n_procs - 1
        terms = list(TERMINATORS)
        if self.lraise:
            terms.append('quit_loop_lraise')
            if self.n_worlds > 1:
                terms.append('quit_loop_other_lraise')
        if self.swfail and self.n_worlds > 1:
            terms += ['switch_loadfail', 'switch_infail']
        if last_frame:
            opts = list(terms)
            if self.n_worlds > 1:
                opts.append('quit_loop_other')
            if not last_proc:
                opts.insert(0, 'nothing')
                if self.direct:
                    opts.insert(1, 'direct_switch')
        else:
            opts = ['nothing'] + terms
            if self.n_worlds > 1:
                opts += ['quit_loop_other', 'switch']
                if self.direct:
                    opts.append('direct_switch')
        a = sp.pick(opts, 'act[s%d,f%d,p%d]' % (self.start_no, self.readings - 1, proc.index))
        sp.note('%s: action %s' % (where, a))
        if a == 'nothing':
            return
        if a == 'direct_switch':
            # public Loop.switch called in mid-frame: returns normally, the frame goes on
            self.cur = 1 - self.cur
            self.direct_switched = True
            sp.cover('direct-switch')
            sp.cover('flag-omitted')
            try:
                self.loop.switch(self.handles[self.cur])
            except Exception as ex:         # noqa
                sp.fail('direct-switch-raises', '%s: loop.switch() raised %r' % (where, ex))
            return
        if not last_proc:
            sp.cover('act-nonlast-proc')
        if a == 'quit':
            self.stop = ('quit', None, True)
            sp.cover('raw-quit')
            raise desper.Quit()
        if a == 'raise':
            ex = ValueError('boom')
            self.stop = ('raise', ex)
            sp.cover('exception')
            raise ex
        if a in ('quit_loop', 'quit_loop_cur', 'quit_loop_other', 'quit_loop_lraise', 'quit_loop_other_lraise'):
            if a in ('quit_loop_other', 'quit_loop_other_lraise'):
                target = self.handles[1 - self.cur]()
                sp.cover('on_quit-given-other')
            else:
                target = cur_world
                sp.cover('on_quit-current' if a in ('quit_loop', 'quit_loop_lraise') else 'on_quit-given-current')
            # if the listener is reached it replaces self.stop by ('raise', its exception); a muted target holds
            # on_quit, the listener is not reached and this is an ordinary quit
            if self.falsy and a != 'quit_loop':
                sp.cover('falsy-quit-given')
            self.stop = ('quit', target, target.dispatch_enabled)
            self.quits_before = list(self.quits)
            self.boom_world = target if a.endswith('lraise') else None
            if a in ('quit_loop', 'quit_loop_lraise'):
                desper.quit_loop()
            else:
                desper.quit_loop(target)
            sp.fail('quit_loop-returns', '%s: quit_loop returned instead of raising Quit' % where)
        if a == 'switch_loadfail':
            # the switch itself fails: load() of the (uncached) target raises - inside desper.switch() for the
            # function, inside the loop's SwitchWorld handling for the raw exception
            self.abandoned = True
            sp.cover('switch-fails')
            if self.raw:
                raise desper.SwitchWorld(self.fail_handle)
            desper.switch(self.fail_handle)
            sp.fail('switch-returns', '%s: switch() returned instead of raising' % where)
        if a == 'switch_infail':
            # the entered world has a listener that raises as soon as the loop re-enables its dispatching:
            # on_switch_in queued by desper.switch(), or an event queued beforehand for the raw exception
            self.cur = 1 - self.cur
            self.switched = True
            self.abandoned = True
            sp.cover('switch-fails')
            h = self.handles[self.cur]
            self.swboom_world = h()
            if self.raw:
                self.swboom_world.dispatch_enabled = False
                self.swboom_world.dispatch('poke')
                raise desper.SwitchWorld(h)
            desper.switch(h)
            sp.fail('switch-returns', '%s: switch() returned instead of raising SwitchWorld' % where)
        if a == 'switch':
            self.cur = 1 - self.cur
            self.switched = True
            self.abandoned = True
            sp.cover('switch')
            sp.cover('flag-omitted')
            h = self.handles[self.cur]
            if self.raw:
                raise desper.SwitchWorld(h)
            desper.switch(h)
            sp.fail('switch-returns', '%s: switch() returned instead of raising SwitchWorld' % where)
        raise AssertionError(a)


def h_loop(sp, starts=2, frames=3, n_procs=2, n_worlds=2, raw=False, direct=False, lraise=False, swfail=False,
           falsy=False):
    per_start = list(frames) if isinstance(frames, (list, tuple)) else [frames] * starts
    ctx = Ctx(sp, per_start[0], n_procs, n_worlds, raw, direct, lraise, swfail)
    if falsy:
        ctx.falsy = sp.pick(['bool', 'len'], 'falsy-world-class')
        sp.note('all worlds are instances of %s (falsy)' % WORLD_CLASSES[ctx.falsy].__name__)
    loop = desper.SimpleLoop(time_function=ctx.tf)
    ctx.loop = loop
    saved = desper.default_loop
    desper.default_loop = loop
    try:
        loop.switch(ctx.handles[0])
        ctx.prev_outcome = None
        for s in range(starts):
            ctx.start_no = s
            ctx.frames = per_start[s]
            ctx.readings = 0
            ctx.calls = 0
            ctx.stop = None
            ctx.switched = False
            ctx.direct_switched = False
            ctx.boom_world = None
            ctx.swboom_world = None
            ctx.abandoned = False
            sp.note('--- start() #%d' % s)
            outcome = None
            try:
                loop.start()
            except Runaway as ex:
                sp.fail('loop-does-not-stop', 'start %d: %s (asked: %r)' % (s, ex, ctx.stop[0]))
            except ScriptOverrun:
                raise
            except Exception as ex:         # noqa
                outcome = ex
            sp.note('start() #%d %s' % (s, 'returned' if outcome is None else 'raised %r' % (outcome,)))
            for hh in ctx.handles:
                if hh.loads:
                    sp.check(hh.cached and hh() is hh.first, 'handle-keeps-world',
                             'start %d: handle %s lost its world although every clear flag was omitted' % (s, hh.tag))
            if ctx.stop is None:
                sp.fail('start-ends-unasked', 'start %d ended (%r) although no processor quit or raised'
                        % (s, outcome))
            if ctx.stop[0] == 'raise':
                sp.check(outcome is ctx.stop[1], 'exception-propagates',
                         'start %d: a processor or on_quit listener raised %r, start() %s' % (
                             s, ctx.stop[1], 'returned normally' if outcome is None else 'raised %r' % (outcome,)))
                if len(ctx.stop) > 2:
                    # raised by an on_quit listener during quit_loop: it was reached, nobody else was
                    new = ctx.quits[len(ctx.quits_before):]
                    sp.check(len(new) == 1 and new[0] is ctx.stop[2], 'on_quit-before-listener-fault',
                             'start %d: on_quit deliveries %s' % (s, [ctx.name(w) for w in new]))
                ctx.prev_outcome = 'raise'
                if ctx.resync:
                    # the switch failed half-way: which world is current now is don't-care; the caller seats a
                    # world again (public Loop.switch) before the next start()
                    ctx.resync = False
                    ctx.cur = 0
                    try:
                        loop.switch(ctx.handles[0])
                    except Exception as ex:         # noqa
                        sp.fail('reseat-raises', 'start %d: loop.switch(h0) after the failed switch raised %r'
                                % (s, ex))
                    if s + 1 < starts:
                        sp.cover('restart-after-failed-switch')
            else:
                _, target, was_enabled = ctx.stop
                sp.check(outcome is None, 'quit-start-returns',
                         'start %d: Quit requested but start() raised %r' % (s, outcome))
                sp.check(loop.running is False, 'running-false-after-quit',
                         'start %d: loop.running is %r after Quit' % (s, loop.running))
                exp_h = ctx.handles[ctx.cur]
                sp.check(loop.current_world_handle is exp_h, 'handle-unchanged-after-quit', 'start %d' % s)
                sp.check(exp_h.cached and loop.current_world is exp_h(), 'world-unchanged-after-quit',
                         'start %d' % s)
                if target is not None:
                    new = ctx.quits[len(ctx.quits_before):]
                    others = [w for w in new if w is not target]
                    sp.check(not others, 'on_quit-wrong-world',
                             'start %d: on_quit heard in %s, target was %s' % (
                                 s, [ctx.name(w) for w in others], ctx.name(target)))
                    if was_enabled:
                        sp.check(len(new) == 1, 'on_quit-once',
                                 'start %d: quit_loop target %s heard on_quit %d times' % (
                                     s, ctx.name(target), len(new)))
                    else:
                        sp.check(len(new) <= 1, 'on_quit-once', 'start %d: on_quit %d times' % (s, len(new)))
                        sp.cover('on_quit-target-muted')
                ctx.prev_outcome = 'quit'
    finally:
        desper.default_loop = saved
    sp.done()


HARNESSES = {
    'loop': dict(fn=h_loop,
                 nontrivial=['dt-later-frame', 'restart', 'dt-across-switch', 'exception', 'on_quit-given-other'],
                 required=['dt-later-frame', 'restart-after-exception', 'restart-after-quit', 'dt-across-switch',
                           'exception', 'raw-quit', 'on_quit-current', 'on_quit-given-current',
                           'on_quit-given-other', 'act-nonlast-proc', 'switch', 'flag-omitted'],
                 concolic=True),
    'loop-direct': dict(fn=h_loop,
                        nontrivial=['dt-later-frame', 'restart', 'dt-across-switch', 'dt-across-direct-switch',
                                    'exception', 'on_quit-given-other'],
                        required=['dt-later-frame', 'restart-after-exception', 'restart-after-quit',
                                  'dt-across-switch', 'dt-across-direct-switch', 'direct-switch', 'exception',
                                  'raw-quit', 'on_quit-current', 'on_quit-given-current', 'on_quit-given-other',
                                  'switch', 'flag-omitted'],
                        concolic=True),
    'loop-lraise': dict(fn=h_loop,
                        nontrivial=['dt-later-frame', 'restart', 'listener-raises', 'exception'],
                        required=['dt-later-frame', 'restart-after-exception', 'restart-after-quit', 'listener-raises',
                                  'exception', 'raw-quit', 'on_quit-current', 'on_quit-given-current',
                                  'on_quit-given-other', 'on_quit-target-muted', 'switch', 'flag-omitted'],
                        concolic=True),
    'loop-swfail': dict(fn=h_loop,
                        nontrivial=['dt-later-frame', 'restart', 'switch-fails', 'exception'],
                        required=['dt-later-frame', 'restart-after-exception', 'restart-after-quit', 'switch-fails',
                                  'switch-load-raises', 'switch-listener-raises', 'restart-after-failed-switch',
                                  'exception', 'raw-quit', 'on_quit-current', 'switch', 'flag-omitted'],
                        concolic=True),
    'loop-falsy': dict(fn=h_loop,
                       nontrivial=['dt-later-frame', 'restart', 'dt-across-switch', 'exception', 'on_quit-given-other'],
                       required=['dt-later-frame', 'restart-after-exception', 'restart-after-quit', 'dt-across-switch',
                                 'exception', 'raw-quit', 'on_quit-current', 'on_quit-given-current',
                                 'on_quit-given-other', 'falsy-quit-given', 'switch', 'flag-omitted'],
                       concolic=True),
    'loop-1p': dict(fn=h_loop,
                    nontrivial=['dt-later-frame', 'restart', 'dt-across-switch', 'exception', 'on_quit-given-other'],
                    required=['dt-later-frame', 'restart-after-exception', 'restart-after-quit', 'dt-across-switch',
                              'exception', 'raw-quit', 'on_quit-current', 'on_quit-given-current',
                              'on_quit-given-other', 'switch', 'flag-omitted'],
                    concolic=True),
    'loop-single': dict(fn=h_loop,
                        nontrivial=['dt-later-frame', 'dt-across-switch', 'exception', 'on_quit-given-other'],
                        required=['dt-later-frame', 'dt-across-switch', 'exception', 'raw-quit', 'on_quit-current',
                                  'on_quit-given-current', 'on_quit-given-other', 'act-nonlast-proc', 'switch', 'flag-omitted'],
                        concolic=True),
    'loop1': dict(fn=h_loop,
                  nontrivial=['dt-later-frame', 'restart', 'exception'],
                  required=['dt-later-frame', 'restart-after-exception', 'restart-after-quit', 'exception',
                            'raw-quit', 'on_quit-current', 'on_quit-given-current'],
                  concolic=True),
}

TIERS = {
    'quick': [
        ('loop', dict(starts=2, frames=(3, 2), n_procs=2, n_worlds=2, raw=False)),
        ('loop', dict(starts=2, frames=(2, 3), n_procs=2, n_worlds=2, raw=False)),
        ('loop', dict(starts=2, frames=(2, 2), n_procs=2, n_worlds=2, raw=True)),
        ('loop1', dict(starts=3, frames=2, n_procs=1, n_worlds=1)),
        ('loop-direct', dict(starts=2, frames=(2, 2), n_procs=2, n_worlds=2, raw=False, direct=True)),
        ('loop-lraise', dict(starts=2, frames=(2, 2), n_procs=2, n_worlds=2, raw=False, lraise=True)),
        ('loop-swfail', dict(starts=2, frames=(2, 2), n_procs=2, n_worlds=2, raw=False, swfail=True)),
        ('loop-swfail', dict(starts=2, frames=(2, 2), n_procs=2, n_worlds=2, raw=True, swfail=True)),
        ('loop-falsy', dict(starts=2, frames=(2, 2), n_procs=2, n_worlds=2, raw=False, falsy=True)),
    ],
    'thorough': [
        ('loop', dict(starts=2, frames=(4, 2), n_procs=2, n_worlds=2, raw=False)),
        ('loop', dict(starts=2, frames=(2, 4), n_procs=2, n_worlds=2, raw=False)),
        ('loop', dict(starts=2, frames=(3, 3), n_procs=2, n_worlds=2, raw=False)),
        ('loop', dict(starts=2, frames=(3, 3), n_procs=2, n_worlds=2, raw=True)),
        ('loop', dict(starts=3, frames=(2, 2, 2), n_procs=2, n_worlds=2, raw=False)),
        ('loop-1p', dict(starts=3, frames=(3, 3, 3), n_procs=1, n_worlds=2, raw=False)),
        ('loop-1p', dict(starts=2, frames=(5, 5), n_procs=1, n_worlds=2, raw=False)),
        ('loop-single', dict(starts=1, frames=(6,), n_procs=2, n_worlds=2, raw=False)),
        ('loop', dict(starts=2, frames=(2, 2), n_procs=3, n_worlds=2, raw=False)),
        ('loop-direct', dict(starts=2, frames=(3, 2), n_procs=2, n_worlds=2, raw=False, direct=True)),
        ('loop-direct', dict(starts=2, frames=(2, 2), n_procs=2, n_worlds=2, raw=True, direct=True)),
        ('loop-direct', dict(starts=3, frames=(2, 2, 2), n_procs=1, n_worlds=2, raw=False, direct=True)),
        ('loop-lraise', dict(starts=2, frames=(3, 2), n_procs=2, n_worlds=2, raw=False, lraise=True)),
        ('loop-lraise', dict(starts=3, frames=(2, 2, 2), n_procs=1, n_worlds=2, raw=False, lraise=True)),
        ('loop-swfail', dict(starts=2, frames=(3, 2), n_procs=2, n_worlds=2, raw=False, swfail=True)),
        ('loop-swfail', dict(starts=2, frames=(3, 2), n_procs=2, n_worlds=2, raw=True, swfail=True)),
        ('loop-swfail', dict(starts=3, frames=(2, 2, 2), n_procs=1, n_worlds=2, raw=True, swfail=True)),
        ('loop-falsy', dict(starts=2, frames=(3, 2), n_procs=2, n_worlds=2, raw=False, falsy=True)),
        ('loop-falsy', dict(starts=2, frames=(2, 2), n_procs=2, n_worlds=2, raw=True, falsy=True)),
    ],
}
BUDGET_S = {'quick': 120, 'thorough': 1500}

EXPLANATION = (
    'Bounded symbolic execution of the real desper.SimpleLoop: the time function handed to the constructor '
    'returns symbolic real clock readings t0 <= t1 <= ... (t_k = t_(k-1) + d_k with d_k >= 0); the worlds contain '
    'script processors which, at every process(dt) call, demand that dt == 0 (first iteration after each start) or '
    'that dt == t_k - t_(k-1) is VALID for all readings (z3), and then perform a symbolic action (nothing, raise '
    'Quit, quit_loop() on the current / a given world, switch to the other world through desper.switch or a raw '
    'SwitchWorld, raise ValueError).  The same loop object is started 1-3 times; after every start the harness '
    'checks that Quit made start() return with running False and the current world/handle unchanged, that on_quit '
    'reached exactly the given/current world, and that any other exception reached the caller unchanged.')
RULE = ('one evaluation = one feasible path (a complete script of actions for every processor call of every frame '
        'of every start); non-trivial = the path checked a dt of a later frame, restarted the loop, carried a dt '
        'across a world switch, propagated an exception or delivered on_quit to a given non-current world')
BOUNDS = {
    'quick': '2 starts x (<=3,<=2) and (<=2,<=3) frames x 2 processors x 2 worlds (desper.switch); 2 starts x <=2 frames (raw '
             'SwitchWorld); 3 starts x <=2 frames x 1 processor x 1 world; 2 starts x <=2 frames x 2 processors with '
             'the extra action "call loop.switch(other) directly"; the same with "quit_loop whose on_quit listener raises" and with "switch that fails itself" (desper.switch and raw); clock readings unbounded reals',
    'thorough': 'frames per start (4,2), (2,4), (3,3) x 2 procs (desper.switch); (3,3) raw SwitchWorld; 3 starts '
                '(2,2,2) x 2 procs; 3 starts (3,3,3) x 1 proc; (5,5) x 1 proc; 1 start x <=6 frames x 2 procs; '
                '(2,2) x 3 procs; with direct loop.switch(): (3,2) x 2 procs, (2,2) x 2 procs raw, (2,2,2) x 1 proc; with a failing on_quit listener: (3,2) x 2 procs, (2,2,2) x 1 proc; with failing '
                'switches: (3,2) x 2 procs switch() and raw, (2,2,2) x 1 proc raw; '
                'always 2 worlds; clock readings unbounded reals',
}
ASSUMPTIONS = [
    'the time function is read once per iteration (as SimpleLoop does); readings are non-decreasing exact reals '
    '(float rounding of timestamp - last_timestamp is outside the claim; replays use dyadic values)',
    'loop.running after a non-Quit exception propagated is not specified by the statement: don\'t-care',
    'a raw `raise Quit()` promises nothing about on_quit: deliveries are not checked in that case',
    'a switch that itself fails (load() of the target raises; a listener of the entered world raises from '
    'on_switch_in or from a queued event when the loop re-enables its dispatching) is "any other exception": that '
    'very object must reach the caller of start(); running, current_world and current_world_handle are don\'t-care '
    'after it, the harness seats world 0 again with the public Loop.switch before the next start(), whose first dt '
    'must be 0 as always',
    'an exception raised by an on_quit listener while quit_loop delivers on_quit is "any other exception": that very '
    'object must reach the caller of start(); running is don\'t-care then; one listener per world, so the only '
    'listener reached before the fault is the failing one',
    'quit_loop(world) on a world whose dispatching is currently disabled (it was left through desper.switch) '
    'holds on_quit like any other event (C13): accepted, at most one delivery, none elsewhere',
    'every switch in this harness (desper.switch, raw SwitchWorld, direct loop.switch) omits clear_current / '
    'clear_next, which must mean False: no handle is ever loaded twice and every handle keeps its world (the clear '
    'flags themselves are C13)',
    'falsy=True entries: every world is an instance of a World subclass whose truth value is False (__bool__ False '
    'or __len__ 0); quit_loop(world) must deliver on_quit to exactly that world all the same',
    'desper.default_loop is pointed at the loop under test for the duration of a path (quit_loop() / switch() '
    'without a world look there) and restored afterwards',
    'the last permitted frame of every start must end in Quit / quit_loop / ValueError (bounded scripts)',
    'a direct loop.switch(handle) call in mid-frame changes current_world/current_world_handle at once; the '
    'remaining processors of that frame still run in the world the iteration began with, the next iteration '
    'processes the new current world; nothing is asserted about dispatching of the world switched away from',
]
OUTSIDE = ['more frames / starts / processors than the bounds', 'time functions that go backwards or return '
           'non-numbers', 'Quit raised by event handlers while on_quit is being dispatched', 'several on_quit '
           'listeners per world (set iteration order)',
           'Loop subclasses other than SimpleLoop']

TECHNIQUE = 'bounded symbolic execution of the real SimpleLoop with symbolic real clock readings (z3 LRA validity of dt == difference), concolic cross-check'
