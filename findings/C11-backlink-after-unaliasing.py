# plain python against /repo (no symx): known finding C11-backlink-after-unaliasing
import sys; sys.path.insert(0, '/repo')
from desper.model import ResourceMap
m, A = ResourceMap(), ResourceMap()
m['a'] = A                      # A stored once:             parent m, key 'a'
m['b'] = A                      # same map, second name:     parent m, key 'b'  (two slots, link ambiguous)
m['b'] = ResourceMap()          # slot 'b' overwritten:      A is stored ONLY under 'a' again
assert m.get('a') is A and m.get('b') is not A
print('A is reachable only as m["a"], but A.key =', repr(A.key), '(expected "a")')
n = ResourceMap(); m['a'] = A; n['x'] = A; n.clear()       # second owner cleared instead of overwritten
print('A is reachable only as m["a"], but A.parent is', A.parent, 'key', repr(A.key), '(expected m, "a")')
