"""C15 — a loaded world contains exactly what its description says.

shape:  description structure is symbolic (processors, entities, ids, component classes), arguments simple.
args:   one component whose positional/keyword argument slots range over ten kinds (JSON values, plain strings,
        ${name}, $res{a.b}, $handle{a.b}, strings with a marker in the middle), file route, world handle attached
        to the resource tree at depth 1, depth 2 (explicit sub-map) or depth 2 through a composite key.
strings (CrossHair): the pass-through claim for ALL strings; ${name} replacement for all short names.
"""
import json
import os
import shutil
import tempfile

import desper
from desper.logic.world import World
from desper.model import ResourceMap, Handle
from desper.model.world import (WorldFromFileHandle, populate_world_from_dict, WorldHandle)

from harness import c15_registry as reg

PROPERTY = 'C15'
REG = 'harness.c15_registry.'
TMPROOT = '/dev/shm' if os.path.isdir('/dev/shm') and os.access('/dev/shm', os.W_OK) else None


class ResHandle(Handle):
    def __init__(self, value):
        self.value = value
        self.loads = 0
        self.last = None

    def load(self):
        # a NEW object per load: whoever bypasses the handle's cache ends up with a different object
        self.loads += 1
        self.last = ('resource', self.value, object())
        return self.last


R1 = 1
R2 = 2

COMP_CLASSES = [reg.CompA, reg.CompB, reg.CompC]
PROC_CLASSES = [reg.ProcA, reg.ProcB]


def make_tree(attach):
    """root map with res1 and sub/res2; returns (root, world-handle key, h1, h2)."""
    root = ResourceMap()
    h1, h2 = ResHandle(R1), ResHandle(R2)
    root['res1'] = h1
    sub = ResourceMap()
    root['sub'] = sub
    sub['res2'] = h2
    return root, h1, h2


def attach_handle(root, handle, attach):
    if attach == 0:
        root['w'] = handle
    elif attach == 1:
        root['sub']['w'] = handle           # depth 2, explicitly assigned sub-map
    else:
        root['worlds/w'] = handle           # depth 2 through a composite key (implicit intermediate map)


# kinds of argument values: (json value, expected resolved value given (h1, h2))
def arg_kinds(h1, h2):
    return [
        ('int', 7, lambda: 7),
        ('float', 2.5, lambda: 2.5),
        ('list', [1, 'x', [2]], lambda: [1, 'x', [2]]),
        ('dict', {'a': 1, 'b': None}, lambda: {'a': 1, 'b': None}),
        ('none', None, lambda: None),
        ('plain', 'hello world', lambda: 'hello world'),
        ('obj', '${' + REG + 'OBJ1}', lambda: reg.OBJ1),
        ('obj-nested', '${' + REG + 'Namespace.inner}', lambda: reg.Namespace.inner),
        ('obj-zero', '${' + REG + 'ZERO}', lambda: 0),          # named objects that are falsy
        ('obj-none', '${' + REG + 'NOTHING}', lambda: None),
        ('obj-empty', '${' + REG + 'EMPTY}', lambda: ()),
        ('res', '$res{sub.res2}', lambda: h2.last),       # evaluated after the load: the handle's cached resource
        ('res1', '$res{res1}', lambda: h1.last),
        ('handle', '$handle{sub.res2}', lambda: h2),
        ('mid-marker', 'x${' + REG + 'OBJ1}', lambda: 'x${' + REG + 'OBJ1}'),
        ('mid-res', ' $res{res1}', lambda: ' $res{res1}'),
        ('dollar', '$', lambda: '$'),
        ('empty', '', lambda: ''),
    ]


def same(got, exp):
    """identity for resolved objects/handles, equality (with type) for JSON values"""
    if isinstance(exp, (tuple, ResHandle)) or exp is reg.OBJ1:
        return got is exp
    return type(got) is type(exp) and got == exp


def check_world(sp, w, handle, procs_exp, ents_exp, file_route):
    """procs_exp: [(class, args, kwargs)], ents_exp: [(id or None, [(class, args, kwargs)])]"""
    sp.check(w.dispatch_enabled is False or not file_route, 'returned-disabled',
             'the loaded world is returned with dispatching enabled')
    procs = list(w.processors)
    for p in procs:
        sp.check(p.world is w, 'processor-world', 'processor %s of the loaded world has .world %r' % (
            type(p).__name__, p.world))
    lead = [desper.OnUpdateProcessor, desper.CoroutineProcessor] if file_route else []
    sp.check([type(p) for p in procs] == lead + [c for c, _, _ in procs_exp], 'processors',
             'processors %r, expected %r' % ([type(p).__name__ for p in procs],
                                             [c.__name__ for c in lead + [c for c, _, _ in procs_exp]]))
    for p, (c, a, k) in zip(procs[len(lead):], procs_exp):
        sp.check(len(p.args) == len(a) and all(same(x, y) for x, y in zip(p.args, a)), 'proc-args',
                 'processor %s got args %r expected %r' % (c.__name__, p.args, a))
    # entities: automatic ids are whatever the world hands out; explicit ids must be used
    owners = list(w.entities)
    with_comps = [(i, comps) for i, comps in ents_exp if comps]
    sp.check(len(owners) == len(with_comps), 'entities', 'world has entities %r, description lists %d with components' % (
        owners, len(with_comps)))
    explicit = [i for i, comps in with_comps if i is not None]
    for i in explicit:
        sp.check(w.entity_exists(i), 'entity-id', 'entity with the given id %r does not exist' % (i,))
    autos = [e for e in owners if e not in explicit]
    auto_descr = [comps for i, comps in with_comps if i is None]
    sp.check(len(autos) == len(auto_descr), 'entities', 'automatic entities %r for %d descriptions' % (autos, len(auto_descr)))
    pairs = [(i, comps) for i, comps in with_comps if i is not None]
    # automatic ids are increasing integers in description order
    for e, comps in zip(sorted(autos), auto_descr):
        pairs.append((e, comps))
    all_comps = []
    for e, comps in pairs:
        got = w.get_components(e)
        sp.check(len(got) == len(comps), 'components', 'entity %r has %d components, description lists %d' % (e, len(got), len(comps)))
        for (c, a, k) in comps:
            g = w.get_component(e, c)
            sp.check(type(g) is c, 'components', 'entity %r lacks a component of type %s' % (e, c.__name__))
            sp.check(len(g.args) == len(a) and all(same(x, y) for x, y in zip(g.args, a)), 'comp-args',
                     '%s on %r got args %r, expected %r' % (c.__name__, e, g.args, a))
            sp.check(sorted(g.kwargs) == sorted(k) and all(same(g.kwargs[n], k[n]) for n in k), 'comp-kwargs',
                     '%s on %r got kwargs %r, expected %r' % (c.__name__, e, g.kwargs, k))
            all_comps.append((e, g))
    return all_comps


def check_events(sp, w, handle, all_comps):
    del reg.EVENTS[:]
    w.dispatch_enabled = True
    for e, g in all_comps:
        mine = [ev for ev in reg.EVENTS if ev[0] is g]
        exp = []
        if isinstance(g, reg.CompA):
            exp = [('on_add', e, w), ('on_world_load', handle, w)]
        elif isinstance(g, reg.CompC):
            exp = [('on_world_load', handle, w)]
        got = [(ev[1], ev[2], ev[3]) for ev in mine]
        # (event, entity-or-handle, world): entity compared by equality, handle and world by identity
        ok = len(got) == len(exp) and all(a[0] == b[0] and (a[1] is b[1] or (a[0] == 'on_add' and a[1] == b[1]))
                                          and a[2] is b[2] for a, b in zip(got, exp))
        sp.check(ok, 'callbacks', 'component %s on %r got callbacks %r, expected %r' % (
            type(g).__name__, e, [x[0] for x in got], [x[0] for x in exp]))
        if exp:
            sp.cover('callbacks')
    sp.check(len(reg.EVENTS) == sum(2 if isinstance(g, reg.CompA) else 1 if isinstance(g, reg.CompC) else 0
                                    for _, g in all_comps), 'callbacks', 'unexpected extra callbacks after enabling')


def draw_shape(sp, max_procs, max_ents, max_comps, small_ids=False, n_classes=3):
    procs = []
    np_ = sp.choose(max_procs + 1, 'n-procs')
    order = sp.choose(2, 'proc-order') if np_ else 0
    classes = PROC_CLASSES if order == 0 else PROC_CLASSES[::-1]
    for i in range(np_):
        with_arg = bool(sp.flag('proc%d-arg' % i))
        procs.append((classes[i], [3] if with_arg else None, {}))
    ents = []
    ne = sp.choose(max_ents + 1, 'n-ents')
    used_ids = set()
    for i in range(ne):
        # id kinds: none / string / int >= 100 / an int the id generator will produce (i+1) / falsy (0, '')
        kinds = ['none', 'gen'] if small_ids else (['none', 'str', 'big', 'zero', 'empty'] if i == 0
                                                   else ['none', 'str', 'gen'])
        kind = kinds[sp.choose(len(kinds), 'ent%d-id' % i)]
        eid = {'none': None, 'str': 'hero%d' % i, 'big': 100 + i, 'gen': i + 1, 'zero': 0, 'empty': ''}[kind]
        if kind in ('zero', 'empty'):
            sp.cover('falsy-id')
        if kind == 'gen':
            sp.cover('generator-id')
        nc = sp.choose(max_comps + 1, 'ent%d-n' % i)
        comps = []
        if nc >= 1:
            c0 = sp.choose(n_classes, 'ent%d-c0' % i)
            comps.append(COMP_CLASSES[c0])
            if nc == 2:
                c1 = sp.choose(len(COMP_CLASSES) - 1, 'ent%d-c1' % i)
                comps.append([c for c in COMP_CLASSES if c is not COMP_CLASSES[c0]][c1])
        ents.append((eid, comps))
    return procs, ents


def h_shape(sp, max_procs=2, max_ents=2, max_comps=2, routes=2, small_ids=False, n_classes=3, n_variants=3):
    route = sp.choose(routes, 'route')     # 0 = JSON file through WorldFromFileHandle, 1 = dictionary
    procs, ents = draw_shape(sp, max_procs, max_ents, max_comps, small_ids, n_classes)
    file_route = route == 0
    root, h1, h2 = make_tree(0)

    def tname(c):
        return REG + c.__name__ if file_route else c

    descr = {}
    procs_exp, ents_exp = [], []
    if procs or sp.flag('empty-processors-key'):
        descr['processors'] = []
        for c, a, k in procs:
            d = {'type': tname(c)}
            if a is not None:
                d['args'] = list(a)
            descr['processors'].append(d)
            procs_exp.append((c, a or [], {}))
    if ents or sp.flag('empty-entities-key'):
        descr['entities'] = []
        for n, (eid, comps) in enumerate(ents):
            ed = {}
            if eid is not None:
                ed['id'] = eid
            cl, cds = [], []
            for j, c in enumerate(comps):
                cd = {'type': tname(c)}
                variant = sp.choose(n_variants, 'ent%d-c%d-args' % (n, j))
                a, k = [], {}
                if variant == 1:
                    a = [n, 'plain']
                    cd['args'] = list(a)
                elif variant == 2:
                    # the file route resolves ${...}; the dictionary route takes python values as they are
                    cd['args'] = ['${' + REG + 'CONST}'] if file_route else [reg.CONST]
                    k = {'kw': [1, 2]}
                    cd['kwargs'] = dict(k)
                    a = [reg.CONST]
                cl.append((c, a, k))
                cds.append(cd)
            if comps or sp.flag('ent%d-empty-components-key' % n):
                ed['components'] = cds
            descr['entities'].append(ed)
            ents_exp.append((eid, cl))
    sp.note('route=%s description=%r' % ('file' if file_route else 'dict', _short(descr)))
    tmp = None
    try:
        try:
            if file_route:
                tmp = tempfile.mkdtemp(prefix='c15-', dir=TMPROOT)
                fn = os.path.join(tmp, 'world.json')
                with open(fn, 'w') as f:
                    json.dump(descr, f)
                # another handle of the same class, customised by its owner before ours is used: its extra transform
                # function must not leak into the world our handle loads
                other = WorldFromFileHandle(fn)
                other.transform_functions.append(lambda h, world: world.add_processor(reg.ProcB('leaked')))
                handle = WorldFromFileHandle(fn)
                attach_handle(root, handle, 0)
                w = root['w']
                sp.cover('customised-sibling-handle')
                sp.check(w is handle(), 'cached', 'the handle loads a different world on second access')
            else:
                handle = WorldHandle()
                handle.transform_functions.append(lambda h, world: populate_world_from_dict(world, descr))
                w = handle()
        except Exception as ex:     # noqa
            import traceback
            sp.fail('load-raises', 'loading raised %r at %s' % (ex, traceback.extract_tb(ex.__traceback__)[-1][:3]))
        sp.check(w.dispatch_enabled is False, 'returned-disabled', 'the loaded world is returned with dispatching enabled')
        all_comps = check_world(sp, w, handle, procs_exp, ents_exp, file_route)
        if file_route:
            # a second world loaded from the same description is a separate world with its own processors
            handle2 = WorldFromFileHandle(fn)
            root['w2'] = handle2
            w2 = handle2()
            sp.check(w2 is not w and not any(p is q for p in w.processors for q in w2.processors), 'separate-worlds',
                     'two worlds loaded from one file share processor objects')
            check_world(sp, w2, handle2, procs_exp, ents_exp, file_route)
            check_world(sp, w, handle, procs_exp, ents_exp, file_route)
            sp.cover('second-world')
        check_events(sp, w, handle, all_comps)
        if procs:
            sp.cover('processors')
        if any(i is not None for i, c in ents_exp if c):
            sp.cover('explicit-id')
        if any(i is None for i, c in ents_exp if c):
            sp.cover('auto-id')
    finally:
        if tmp:
            shutil.rmtree(tmp, ignore_errors=True)
    sp.done()


def _short(d):
    s = json.dumps(d, default=lambda o: getattr(o, '__name__', str(o)))
    return s.replace(REG, '')


def h_args(sp, n_pos=2, n_kw=1, kinds=15, move=True):
    attach = sp.choose(3, 'attach')
    root, h1, h2 = make_tree(attach)
    K = arg_kinds(h1, h2)[:kinds]
    npos = sp.choose(n_pos + 1, 'n-pos')
    nkw = sp.choose(n_kw + 1, 'n-kw')
    target_proc = bool(sp.flag('on-processor'))
    a_js, a_exp, k_js, k_exp = [], [], {}, {}
    for i in range(npos):
        name, js, exp = K[sp.choose(len(K), 'pos%d' % i)]
        a_js.append(js)
        a_exp.append(exp)
        sp.cover('kind-' + name)
    for i in range(nkw):
        name, js, exp = K[sp.choose(len(K), 'kw%d' % i)]
        k_js['k%d' % i] = js
        k_exp['k%d' % i] = exp
        sp.cover('kind-' + name)
    if attach == 2 and any(isinstance(j, str) and (j.startswith('$res{') or j.startswith('$handle{')) for j in a_js + list(k_js.values())):
        sp.cover('res-through-composite-key')
    item = {'type': REG + ('ProcA' if target_proc else 'CompB')}
    if a_js or sp.flag('explicit-empty-args'):
        item['args'] = a_js
    if k_js or sp.flag('explicit-empty-kwargs'):
        item['kwargs'] = k_js
    descr = {'processors': [item]} if target_proc else {'entities': [{'id': 'e', 'components': [item]}]}
    sp.note('attach=%d description=%s' % (attach, _short(descr)))
    tmp = tempfile.mkdtemp(prefix='c15-', dir=TMPROOT)
    try:
        fn = os.path.join(tmp, 'world.json')
        with open(fn, 'w') as f:
            json.dump(descr, f)
        handle = WorldFromFileHandle(fn)
        attach_handle(root, handle, attach)
        try:
            w = handle()
        except Exception as ex:     # noqa
            import traceback
            sp.fail('load-raises', 'loading raised %r at %s' % (ex, traceback.extract_tb(ex.__traceback__)[-1][:3]),
                    attach=attach)
        used_res = [h for h, marker in ((h1, '$res{res1}'), (h2, '$res{sub.res2}')) if marker in a_js + list(k_js.values())]
        a_lazy, k_lazy = a_exp, k_exp
        a_exp = [f() for f in a_lazy]
        k_exp = {n: f() for n, f in k_lazy.items()}
        for h in used_res:
            # $res{} goes through the handle: loaded exactly once, cached, and it is the object every other access returns
            sp.check(h.cached and h.loads == 1, 'res-through-handle-cache',
                     'a resource referenced with $res{} left its handle with cached=%s after %d load(s)' % (h.cached, h.loads))
            sp.check(h() is h.last and h.loads == 1, 'res-through-handle-cache', 'accessing the referenced handle again loaded anew')
            sp.cover('res-cached')
        if target_proc:
            check_world(sp, w, handle, [(reg.ProcA, a_exp, k_exp)], [], True)
            p = w.get_processor(reg.ProcA)
            sp.check(sorted(p.kwargs) == sorted(k_exp) and all(same(p.kwargs[n], k_exp[n]) for n in k_exp), 'proc-args',
                     'processor kwargs %r expected %r' % (p.kwargs, k_exp))
        else:
            check_world(sp, w, handle, [], [('e', [(reg.CompB, a_exp, k_exp)])], True)
        sp.check(h1.loads <= 1 and h2.loads <= 1, 'resource-loaded-once', 'a referenced resource was loaded more than once')
        if move:
            # second use: the world handle moves into another resource tree, is cleared and loaded again; references
            # must now resolve against the tree that encloses it NOW
            root.clear()
            root_b, h1b, h2b = make_tree(attach)
            h1b.value, h2b.value = 'res1 of the other tree', 'res2 of the other tree'
            attach_handle(root_b, handle, attach)
            handle.clear()
            old_r1, old_r2 = h1.last, h2.last
            try:
                wb = handle()
            except Exception as ex:     # noqa
                sp.fail('load-raises', 'loading again after moving the handle raised %r' % (ex,), attach=attach)
            fix = {id(h1): h1b, id(h2): h2b}
            if old_r1 is not None:
                fix[id(old_r1)] = h1b.last
            if old_r2 is not None:
                fix[id(old_r2)] = h2b.last
            a_exp_b = [fix.get(id(x), x) for x in a_exp]
            k_exp_b = {n: fix.get(id(x), x) for n, x in k_exp.items()}
            sp.check(wb is not w, 'reload-fresh', 'clear() + access did not load a fresh world')
            if target_proc:
                check_world(sp, wb, handle, [(reg.ProcA, a_exp_b, k_exp_b)], [], True)
            else:
                check_world(sp, wb, handle, [], [('e', [(reg.CompB, a_exp_b, k_exp_b)])], True)
            sp.cover('moved-and-reloaded')
    finally:
        shutil.rmtree(tmp, ignore_errors=True)
    sp.done()


# ------------------------------------------------------------------------------------------------ CrossHair part
def crosshair_conditions(tier, seed, deadline, conditions=(), timeout=60):
    from chk.runner import check
    import time
    res = dict(paths=0, nontrivial=0, covers={}, violations=[], inconclusive=[], samples=[], errors=[],
               queries=0, q_sat=0, q_unsat=0, solver_time=0.0, exhausted=True,
               funcs=['desper/model/world.py:object_dict_transformer', 'desper/model/world.py:resource_dict_transformer'])
    for fname, expect in conditions:
        r = check('chk.c15_strings', fname, timeout)
        n = r['stats'].get('num_paths', 0)
        res['paths'] += n
        res['nontrivial'] += n
        res['queries'] += n
        res['samples'].append(dict(condition=fname, verdict=r['verdict'], paths=n, wall=r['wall'], text=r['text'][:300]))
        if r['verdict'] == expect:
            res['covers'][fname + ':' + expect] = 1
            res['q_unsat' if expect == 'confirmed' else 'q_sat'] += n
            continue
        if expect == 'confirmed' and r['verdict'] == 'refuted':
            res['violations'].append(dict(clause='crosshair:' + fname, info={}, detail=r['text'], assignment={},
                                          decisions=[], trace=[r['text']], replay_path=_ch_replay(fname, r['text']),
                                          reproduced=_ch_reproduce(fname, r['text']), replay_text=r['text']))
        elif expect == 'refuted':
            res['errors'].append('reachability twin %s not refuted (%s): vacuous precondition?' % (fname, r['verdict']))
        else:
            res['inconclusive'].append(dict(why='CrossHair %s: %s %s' % (fname, r['verdict'], r['text'][:200]), decisions=[]))
    return res


def _ch_replay(fname, text):
    import hashlib
    d = os.path.join(os.path.dirname(os.path.dirname(os.path.abspath(__file__))), 'replays', 'C15')
    os.makedirs(d, exist_ok=True)
    p = os.path.join(d, 'crosshair-%s-%s.json' % (fname, hashlib.sha1(text.encode()).hexdigest()[:10]))
    with open(p, 'w') as f:
        json.dump(dict(property='C15', harness='strings-replay', params=dict(fname=fname, text=text), assignment={},
                       clause='crosshair:' + fname, info={}, detail=text, decisions=[], trace=[text]), f, indent=1)
    return p


def _ch_call(fname, text):
    """Re-run the counterexample printed by CrossHair concretely: returns the post-condition value."""
    import re
    import chk.c15_strings as cs
    m = re.search(r'when calling (\w+)\((.*)\) \(which', text, re.S)
    if not m:
        return None
    arg = eval(m.group(2), {})      # a python string literal produced by CrossHair's repr
    return bool(getattr(cs, fname)(arg))


def _ch_reproduce(fname, text):
    try:
        return _ch_call(fname, text) is False
    except Exception:       # noqa
        return True         # the condition raised: also a failure of the claim


def h_strings_replay(sp, fname='', text=''):
    ok = _ch_call(fname, text)
    sp.check(ok is not False, 'crosshair:' + fname, text)
    sp.done()


HARNESSES = {
    'shape': dict(fn=h_shape, nontrivial=['processors', 'explicit-id', 'auto-id', 'callbacks', 'falsy-id'],
                  required=['processors', 'explicit-id', 'auto-id', 'callbacks', 'falsy-id', 'generator-id', 'second-world', 'customised-sibling-handle']),
    'args': dict(fn=h_args, nontrivial=['kind-obj', 'kind-res', 'kind-handle', 'kind-mid-marker', 'kind-plain', 'kind-list'],
                 required=['kind-int', 'kind-obj', 'kind-obj-nested', 'kind-obj-zero', 'kind-obj-none', 'kind-obj-empty', 'kind-res', 'kind-res1', 'kind-handle', 'kind-mid-marker',
                           'kind-plain', 'kind-list', 'kind-dict', 'kind-none', 'res-through-composite-key',
                           'moved-and-reloaded', 'res-cached']),
    'strings': dict(kind='custom', fn=crosshair_conditions),
    'strings-replay': dict(fn=h_strings_replay),
}
TIERS = {
    'quick': [('shape', dict(max_procs=1, max_ents=2, max_comps=1)),
              ('shape', dict(max_procs=0, max_ents=3, max_comps=1, small_ids=True, n_classes=1, n_variants=1),
               dict(required=['generator-id', 'auto-id', 'callbacks'])),
              ('args', dict(n_pos=1, n_kw=1)),
              ('strings', dict(conditions=[('passthrough', 'confirmed'), ('reach_passthrough', 'refuted'),
                                           ('object_marker', 'confirmed')], timeout=60))],
    'thorough': [('shape', dict(max_procs=2, max_ents=2, max_comps=2)),
                 ('shape', dict(max_procs=1, max_ents=3, max_comps=1, n_variants=1)),
                 ('shape', dict(max_procs=0, max_ents=4, max_comps=1, small_ids=True, n_classes=2, n_variants=1),
                  dict(required=['generator-id', 'auto-id', 'callbacks'])),
                 ('args', dict(n_pos=2, n_kw=1)),
                 ('strings', dict(conditions=[('passthrough', 'confirmed'), ('reach_passthrough', 'refuted'),
                                              ('object_marker', 'confirmed'), ('object_marker_long', 'confirmed'),
                                              ('object_marker_xl', 'confirmed')],
                                  timeout=240))],
}
BUDGET_S = {'quick': 200, 'thorough': 1500}
ENGINE = 'symx + crosshair'
TECHNIQUE = ('bounded symbolic execution of the real loader (symx/z3) for description structure and argument kinds; '
             'CrossHair (z3 string theory) for the pass-through claim over all strings')
EXPLANATION = (
    'symx: world descriptions are generated from solver variables (numbers of processors/entities/components, id kind, '
    'component classes, argument kinds per slot, attachment point of the world handle in the resource tree), written '
    'as a JSON file into a per-path temporary directory (or passed as a dictionary) and loaded by the real '
    'WorldFromFileHandle / populate_world_from_dict; processors, entities, components, recorded constructor arguments '
    '(identity for resolved objects, resources and handles), the disabled dispatcher and the callback order after '
    'enabling are compared with the description.  CrossHair: object_dict_transformer + resource_dict_transformer leave '
    'every string that does not start with a marker unchanged (confirmed over all paths, unbounded strings); '
    '${name} is replaced by object_from_string(name) for every name up to the stated length.')
RULE = ('one evaluation = one feasible path (one description) or one CrossHair path; non-trivial = the description has '
        'processors/explicit ids/automatic ids/handler callbacks or an argument of a resolving kind; CrossHair paths count as non-trivial')
BOUNDS = {'quick': 'shape: <=1 processor, <=2 entities, <=1 component, 3 argument variants, 5 id kinds, file and dict route; <=3 entities with generator-range ids; '
                   'args: <=1 positional + <=1 keyword slot over 15 kinds x 3 attachment points; strings: unbounded (pass-through), |name|<=3',
          'thorough': 'shape: <=2 processors, <=2 entities, <=2 components; <=1 processor, <=3 entities, <=1 component; <=4 entities with generator-range ids; args: <=2 positional + <=1 keyword; strings: unbounded (pass-through); ${name} for |name|<=3, <=6 and <=16'}
ASSUMPTIONS = [
    'references nested inside lists/dicts are not resolved (only top-level positions, by design)',
    'explicit entity ids are strings, ints >= 100, the falsy ids 0 and \'\', or the small ints 1,2,3 that the id generator would produce (entities without id must then get other ids)',
    'components of one entity have distinct exact types; processors listed have distinct exact types and default priority',
    'object_from_string is stubbed by a recording function in the CrossHair ${name} condition (importlib on a symbolic string is out of reach)',
    'marker-looking strings that do start with a marker but are malformed (unterminated, trailing text) are not asserted on',
]
OUTSIDE = ['names whose import has side effects', 'lru_cache staleness across module reloads',
           '${name} resolving to a string that itself starts with a resource marker (resolved twice)',
           'the dictionary route does not resolve marker strings (only the file transformers do): dictionary descriptions use classes and plain values']
TRUSTED = ['CrossHair 0.0.110 (string/regex models) for the strings harness']
