"""C02 — component lifecycle callbacks fire exactly once per attach/detach.

H(L): operation sequences over a World interleaved with enabling/disabling dispatching; every
component instance logs its callbacks into one global log; the reference model computes, per
operation, the *group* of callbacks that operation must cause (order inside one operation is not
fixed by the statement) and the attached set.
"""
import desper
from desper.logic.world import World

from harness.reenter import h_reenter

PROPERTY = 'C02'

LOG = []        # (instance, event, args...) in real delivery order
INSIDE = []     # observations made inside on_add: (instance, is_handler(self), still attached to that entity)


def make_classes(ns):
    """The five component classes, optionally with unusual instances (extra namespace entries)."""

    @desper.event_handler('on_add', 'on_remove', 'probe')
    class Hd:
        def on_add(self, entity, world):
            INSIDE.append((self, world.is_handler(self), any(c is self for c in world.get_components(entity))))
            LOG.append((self, 'on_add', entity, world))

        def on_remove(self, entity, world):
            LOG.append((self, 'on_remove', entity, world))

        def probe(self):
            LOG.append((self, 'probe'))

    class Hs(Hd):
        pass

    class N:
        """not a handler"""

    class Mid(desper.Controller):
        """plain, undecorated level between the decorated Controller and the re-decorated Ha"""

    @desper.event_handler('probe')
    class Ha(Mid):
        """handler with on_add (via Controller, two levels up) but no on_remove"""

        def on_add(self, entity, world):
            super().on_add(entity, world)
            INSIDE.append((self, world.is_handler(self), any(c is self for c in world.get_components(entity))))
            LOG.append((self, 'on_add', entity, world))

        def probe(self):
            LOG.append((self, 'probe'))

    @desper.event_handler('probe')
    class Ho:
        """handler without on_add / on_remove"""

        def probe(self):
            LOG.append((self, 'probe'))

    for cls in (Hd, N, Ha, Ho):
        for k, v in ns.items():
            setattr(cls, k, v)
    classes = [Hd, Hs, N, Ha, Ho]
    sets = [[Hd], [Hs], [N], [Ha], [Ho], [Hd, N], [Hd, Hs], [Ha, Ho]]
    return classes, sets


FLAVOURS = {
    'plain': make_classes({}),
    'falsy': make_classes({'__bool__': lambda self: False}),
    'empty': make_classes({'__len__': lambda self: 0}),
    # every instance equals everything and all hash alike (value-style components with equal fields)
    'all-equal': make_classes({'__eq__': lambda self, other: True, '__hash__': lambda self: 7}),
    # container-like components: iterable (and empty), eg. an inventory or a vector
    'iterable': make_classes({'__iter__': lambda self: iter(())}),
}
CLASSES, CREATE_SETS = FLAVOURS['plain']
Hd, Hs, N, Ha, Ho = CLASSES


# what each class listens to, as declared by the decorators above and on desper.Controller (event_handler composes
# the inherited events with the newly named ones); spelled out here so that the oracle does not take it from the
# code under test
DECLARED = {'Hd': {'on_add', 'on_remove', 'probe'}, 'Hs': {'on_add', 'on_remove', 'probe'}, 'N': set(),
            'Ha': {'on_add', 'probe'}, 'Ho': {'probe'}}


def has(cls, event):
    return event in DECLARED[cls.__name__]


class Model:
    def __init__(self, w):
        self.w = w
        self.ents = {}          # id -> {type: inst}
        self.dead = set()
        self.tainted = set()
        self.enabled = True
        self.pending = []       # groups postponed while disabled
        self.expected = []      # groups expected to have been delivered, in order
        self.group = None
        self.instances = []     # every instance ever created (kept alive)
        self.detached = []      # instances currently not attached (candidates for re-attachment)

    def begin_op(self):
        self.group = []

    def end_op(self):
        if self.group:
            (self.expected if self.enabled else self.pending).append(self.group)
        self.group = None

    def attached(self):
        return [c for comps in self.ents.values() for c in comps.values()]

    def attach(self, e, inst):
        comps = self.ents.setdefault(e, {})
        old = comps.get(type(inst))
        if old is not None:
            self.detach(e, old)
        self.ents.setdefault(e, {})[type(inst)] = inst
        self.detached = [d for d in self.detached if d is not inst]
        if has(type(inst), 'on_add'):
            self.group.append((inst, 'on_add', e, self.w))

    def detach(self, e, inst):
        del self.ents[e][type(inst)]
        if not self.ents[e]:
            del self.ents[e]
        self.detached.append(inst)
        if has(type(inst), 'on_remove'):
            self.group.append((inst, 'on_remove', e, self.w))

    def drop_entity(self, e):
        for inst in list(self.ents.get(e, {}).values()):
            self.detach(e, inst)


def norm(group):
    return sorted((id(t[0]), t[1], repr(t[2]) if len(t) > 2 else '', id(t[3]) if len(t) > 3 else 0)
                  for t in group)


def describe(t):
    return '%s#%x.%s%r' % (type(t[0]).__name__, id(t[0]) & 0xfff, t[1], tuple(
        x if not isinstance(x, World) else 'world' for x in t[2:]))


def oracle(sp, w, m, when, consumed):
    """consumed: number of LOG entries already matched; returns the new count."""
    if m.enabled:
        pos = consumed
        for g in m.expected:
            got = LOG[pos:pos + len(g)]
            sp.check(len(got) == len(g) and norm(got) == norm(g), 'callbacks',
                     '%s: expected callbacks {%s}, got {%s}' % (
                         when, ', '.join(describe(t) for t in g), ', '.join(describe(t) for t in LOG[pos:pos + len(g) + 2])))
            pos += len(g)
        sp.check(len(LOG) == pos, 'callbacks-extra',
                 '%s: unexpected extra callbacks {%s}' % (when, ', '.join(describe(t) for t in LOG[pos:])))
        m.expected = []
        consumed = pos
    else:
        sp.check(len(LOG) == consumed, 'callback-while-disabled',
                 '%s: callbacks ran while dispatching is disabled {%s}' % (
                     when, ', '.join(describe(t) for t in LOG[consumed:])))
    # inside on_add: a component that is (still) attached to that entity is already registered as a listener
    for inst, was_handler, was_attached in INSIDE:
        if was_attached:
            sp.check(was_handler, 'listener-while-attached',
                     '%s: inside on_add, %s#%x is attached but world.is_handler(self) is False' % (
                         when, type(inst).__name__, id(inst) & 0xfff))
            sp.cover('observed-inside-on_add')
    del INSIDE[:]
    att = m.attached()
    for inst in m.instances:
        if hasattr(inst, '__events__'):
            is_att = any(inst is a for a in att)
            sp.check(w.is_handler(inst) is is_att, 'is_handler',
                     '%s: is_handler(%s#%x) is %s but attached is %s' % (
                         when, type(inst).__name__, id(inst) & 0xfff, w.is_handler(inst), is_att))
            if isinstance(inst, desper.Controller) and is_att and m.enabled:
                owner = [e for e, comps in m.ents.items() if any(c is inst for c in comps.values())][0]
                sp.check(inst.entity == owner and inst.world is w, 'controller-owner',
                         '%s: Controller knows entity %r world %r, real owner %r' % (
                             when, inst.entity, inst.world, owner))
    return consumed


def h_life(sp, L=3, ids=(1, 2), classes=5, create_sets=8, auto=True, reuse=True, flavour='plain', build=False):
    del LOG[:]
    del INSIDE[:]
    w = World()
    m = Model(w)
    all_classes, all_sets = FLAVOURS[flavour]
    cls = all_classes[:classes]
    csets = all_sets[:create_sets]
    if flavour != 'plain':
        sp.cover('unusual-' + flavour)
    ids = list(ids)
    consumed = 0
    n_ops = 10

    def new_inst(T, label):
        cands = [i for i in m.detached if type(i) is T]
        if reuse and cands and sp.flag(label + '.reuse'):
            sp.cover('re-attach')
            return cands[0]
        inst = T()
        m.instances.append(inst)
        return inst

    if build:
        # shape I: a state built through the public API from symbolic choices, possibly with entities awaiting
        # deletion and with dispatching disabled, then L operations
        for e in ids:
            k = sp.choose(len(csets) + 1, 'build%r' % (e,))
            if k < len(csets):
                m.begin_op()
                comps = [T() for T in csets[k]]
                m.instances.extend(comps)
                w.create_entity(*comps, entity_id=e)
                for c in comps:
                    m.attach(e, c)
                m.end_op()
                sp.note('build create_entity(%s, entity_id=%r)' % (', '.join(T.__name__ for T in csets[k]), e))
        consumed = oracle(sp, w, m, 'after build', consumed)
        for e in ids:
            if e in m.ents and sp.flag('build-dead%r' % (e,)):
                w.delete_entity(e)
                m.dead.add(e)
                sp.note('build delete_entity(%r)' % (e,))
        if sp.flag('build-disabled'):
            w.dispatch_enabled = False
            m.enabled = False
            sp.note('build dispatch_enabled = False')
            sp.cover('built-disabled')
    for step in range(L):
        op = sp.choose(n_ops, 'op%d' % step)
        when = 'step %d' % step
        m.begin_op()
        try:
            if op == 0:     # create_entity
                targets = ids + (['auto'] if auto else [])
                e = sp.pick(targets, 'e%d' % step)
                ts = sp.pick(csets, 'set%d' % step)
                if e != 'auto' and e in m.tainted:
                    sp.assume(False)
                comps = [new_inst(T, 'c%d_%s' % (step, T.__name__)) for T in ts]
                if e == 'auto':
                    sp.note('create_entity(%s)' % ', '.join(T.__name__ for T in ts))
                    e = w.create_entity(*comps)
                    sp.note('  -> %r' % (e,))
                    if e in m.tainted:
                        sp.assume(False)
                else:
                    sp.note('create_entity(%s, entity_id=%r)' % (', '.join(T.__name__ for T in ts), e))
                    if any(T in m.ents.get(e, {}) for T in ts):
                        sp.cover('create-replaces')
                    w.create_entity(*comps, entity_id=e)
                for c in comps:
                    m.attach(e, c)
                if not m.enabled:
                    sp.cover('attach-disabled')
            elif op == 1:   # add_component
                e = sp.pick(ids, 'e%d' % step)
                T = sp.pick(cls, 't%d' % step)
                if e in m.tainted:
                    sp.assume(False)
                c = new_inst(T, 'c%d' % step)
                sp.note('add_component(%r, %s)' % (e, T.__name__))
                if T in m.ents.get(e, {}):
                    sp.cover('replace')
                w.add_component(e, c)
                m.attach(e, c)
                if not m.enabled:
                    sp.cover('attach-disabled')
            elif op == 2:   # remove_component
                e = sp.pick(ids, 'e%d' % step)
                T = sp.pick(cls, 't%d' % step)
                sp.note('remove_component(%r, %s)' % (e, T.__name__))
                comps = m.ents.get(e, {})
                matches = [c for t, c in comps.items() if issubclass(t, T)]
                r = w.remove_component(e, T)
                if matches:
                    sp.check(any(r is c for c in matches), 'remove-returns',
                             'remove_component returned %r, not an attached match' % (r,))
                    m.detach(e, r)
                    sp.cover('remove')
                    if not m.enabled:
                        sp.cover('detach-disabled')
                    if e not in m.ents and e in m.dead:
                        m.tainted.add(e)
                else:
                    sp.check(r is None, 'remove-returns', 'remove_component returned %r, nothing matches' % (r,))
            elif op in (3, 4):  # delete_entity deferred / immediate
                owners = sorted(m.ents, key=repr)
                if not owners:
                    sp.assume(False)
                e = sp.pick(owners, 'e%d' % step)
                if op == 3:
                    sp.note('delete_entity(%r)' % (e,))
                    w.delete_entity(e)
                    m.dead.add(e)
                else:
                    sp.note('delete_entity(%r, immediate=True)' % (e,))
                    w.delete_entity(e, immediate=True)
                    m.drop_entity(e)
                    sp.cover('delete-immediate')
                    if not m.enabled:
                        sp.cover('detach-disabled')
                    if e in m.dead:
                        m.dead.discard(e)
                        m.tainted.add(e)
            elif op == 5:   # process
                sp.note('process()')
                w.process()
                for e in sorted(m.dead, key=repr):
                    if e in m.ents:
                        sp.cover('process-deletes')
                        if not m.enabled:
                            sp.cover('process-deletes-disabled')
                        m.drop_entity(e)
                m.dead.clear()
                m.tainted.clear()
            elif op == 6:   # clear (only while enabled, see ASSUMPTIONS)
                if not m.enabled:
                    sp.assume(False)
                sp.note('clear()')
                if m.ents:
                    sp.cover('clear-nonempty')
                w.clear()
                for e in list(m.ents):
                    m.drop_entity(e)
                m.dead.clear()
                m.tainted.clear()
                m.cleared = True
            elif op == 7:   # disable
                if not m.enabled:
                    sp.assume(False)
                sp.note('dispatch_enabled = False')
                w.dispatch_enabled = False
                m.enabled = False
            elif op == 8:   # enable
                if m.enabled:
                    sp.assume(False)
                sp.note('dispatch_enabled = True')
                if m.pending:
                    sp.cover('release')
                    if getattr(m, 'cleared', False):
                        sp.cover('release-after-clear')
                w.dispatch_enabled = True
                m.enabled = True
                m.expected.extend(m.pending)
                m.pending = []
            elif op == 9:   # probe (only while enabled)
                if not m.enabled:
                    sp.assume(False)
                sp.note("dispatch('probe')")
                w.dispatch('probe')
                for c in m.attached():
                    if has(type(c), 'probe'):
                        m.group.append((c, 'probe'))
                if m.group:
                    sp.cover('probe')
        except Exception as ex:     # noqa
            import traceback
            sp.fail('op-raises', '%s: operation raised %r at %s' % (
                when, ex, traceback.extract_tb(ex.__traceback__)[-1][:3]))
        m.end_op()
        consumed = oracle(sp, w, m, when, consumed)
    # always finish enabled so that postponed callbacks are observed
    if not m.enabled:
        m.begin_op()
        try:
            w.dispatch_enabled = True
        except Exception as ex:     # noqa
            sp.fail('op-raises', 'final enable raised %r' % (ex,))
        m.enabled = True
        m.expected.extend(m.pending)
        m.pending = []
        m.end_op()
        sp.note('dispatch_enabled = True (final)')
        consumed = oracle(sp, w, m, 'final enable', consumed)
    sp.done()


HARNESSES = {
    'life': dict(fn=h_life,
                 nontrivial=['replace', 'remove', 'delete-immediate', 'process-deletes', 'clear-nonempty',
                             'release', 'probe', 're-attach', 'create-replaces', 'attach-disabled',
                             'detach-disabled', 'release-after-clear'],
                 required=['replace', 'remove', 'delete-immediate', 'clear-nonempty', 'release', 'probe',
                           'attach-disabled', 'observed-inside-on_add']),
    # one lifecycle callback re-enters the world at one point (disables dispatching / acts on a bystander entity)
    'reenter': dict(fn=h_reenter,
                    nontrivial=['action-0-fired', 'action-1-fired', 'action-2-fired', 'action-3-fired',
                                'postponed-by-callback', 'armed-callback-was-postponed'],
                    required=['action-0-fired', 'action-1-fired', 'action-2-fired', 'action-3-fired',
                              'postponed-by-callback', 'multi-create', 'multi-delete-immediate',
                              'multi-delete-at-process', 'replace']),
}
TIERS = {
    'quick': [('life', dict(L=3)),
              ('life', dict(L=1, build=True, ids=(1, 2), create_sets=6, auto=False),
               dict(required=['built-disabled', 'process-deletes', 'process-deletes-disabled', 'remove', 'replace', 'probe'])),
              ('life', dict(L=2, flavour='falsy'), dict(required=['unusual-falsy', 'replace', 'remove', 'probe'])),
              ('life', dict(L=2, flavour='empty'), dict(required=['unusual-empty', 'replace', 'remove', 'probe'])),
              ('life', dict(L=3, flavour='all-equal', ids=(1,), classes=2, create_sets=2, auto=False),
               dict(required=['unusual-all-equal', 'replace', 'remove', 'probe', 'release', 'attach-disabled'])),
              ('life', dict(L=2, flavour='iterable'), dict(required=['unusual-iterable', 'replace', 'remove', 'probe', 'attach-disabled'])),
              ('reenter', dict(L=2), dict(required=['armed-callback-was-postponed']))],
    'thorough': [('life', dict(L=4, ids=(1,), classes=5, create_sets=7, auto=True)),
                 ('life', dict(L=2, build=True, ids=(1, 2), create_sets=8, auto=False)),
                 ('life', dict(L=4, ids=(1, 2), classes=3, create_sets=3, auto=False)),
                 ('life', dict(L=5, ids=(1,), classes=2, create_sets=2, auto=False, reuse=False)),
                 ('life', dict(L=3, flavour='falsy')), ('life', dict(L=3, flavour='empty')),
                 ('life', dict(L=4, flavour='all-equal', ids=(1,), classes=3, create_sets=3, auto=False)),
                 ('life', dict(L=3, flavour='iterable')),
                 ('reenter', dict(L=3), dict(required=['armed-callback-was-postponed']))],
}
BUDGET_S = {'quick': 150, 'thorough': 1500}
EXPLANATION = (
    'Bounded symbolic execution of the real desper.World lifecycle paths (create_entity, add_component, '
    'remove_component, delete_entity deferred/immediate, _clear_dead_entities via process, clear, the '
    'on_single_dispatch relay and the dispatch_enabled setter): all operation sequences of length <= L over a '
    'small universe, every callback of every component instance is logged and compared after every operation '
    'with the callbacks the reference model says that operation must cause; is_handler is compared with the '
    'attached set; a probe event must reach exactly the attached handlers.')
RULE = ('one evaluation = one feasible path (operation sequence); non-trivial = the path contains a replacement, '
        'removal, immediate deletion, deletion at process, non-empty clear, a release of postponed callbacks, a probe '
        'delivery or a re-attachment')
BOUNDS = {
    'quick': 'L=3 operations; ids 1,2 and automatic; classes Hd, Hs(Hd), N, Ha(Mid(Controller)) - a three-level chain with an undecorated middle -, Ho; 8 component sets for create; '
             'reenter: built entity 1 (6 component sets) + optional bystander 9, 4 actions x armed on_add/on_remove, L=2 of 7 operations',
    'thorough': 'L=4 with one id + automatic (all classes); L=4 with two ids (3 classes); L=5 with one id (2 classes); reenter L=3',
}
ASSUMPTIONS = [
    'the order of callbacks caused by ONE operation (several components of one entity, several entities at '
    'process/clear) is not fixed by the statement: compared as a multiset per operation, sequence across operations',
    'clear() is only issued while dispatching is enabled: its documented contract ("pending events are lost '
    'forever, dispatch is enabled after this operation") contradicts postponement, so that combination is outside the claim',
    'probe events are only dispatched while dispatching is enabled (deferred delivery of ordinary events is C04)',
    'an instance is attached to at most one entity at a time; callbacks do not raise (C04/C05)',
    'component instances may be falsy (__bool__ False), empty (__len__ 0), iterable (__iter__) or all equal and hash-equal: flavours falsy / empty / iterable / all-equal',
    're-populating an id emptied while its deferred-deletion mark was pending is outside the claim (as in C01)',
    'harness reenter: exactly one armed lifecycle callback per path performs one action the first time it runs; order of '
    'callbacks inside one operation is free, so delivered callbacks are compared as multisets whenever dispatching is enabled '
    '(sub-multiset while disabled) and every callback must see dispatch_enabled True when it starts',
]
OUTSIDE = ['histories longer than L', 'processors (C07)',
           'callbacks that mutate the world, except the single re-entrant action of harness `reenter` (disable dispatching, or '
           'add / remove / delete on a bystander entity); a callback changing the entity its own operation is working on']

TECHNIQUE = 'bounded symbolic execution (symx/z3 path exploration) of operation histories with enable/disable interleavings, callback-log oracle'
