"""Importable names used by the C15 world descriptions (real import of a real module)."""
import desper

EVENTS = []     # (instance, event, args)


class Rec:
    def __init__(self, *args, **kwargs):
        self.args = args
        self.kwargs = kwargs


@desper.event_handler('on_add', 'on_world_load')
class CompA(Rec):
    def on_add(self, entity, world):
        EVENTS.append((self, 'on_add', entity, world))

    def on_world_load(self, handle, world):
        EVENTS.append((self, 'on_world_load', handle, world))


class CompB(Rec):
    pass


@desper.event_handler('on_world_load')
class CompC(Rec):
    """a container-like component: iterable (and empty) - a loader must not mistake it for a list of components"""

    def on_world_load(self, handle, world):
        EVENTS.append((self, 'on_world_load', handle, world))

    def __iter__(self):
        return iter(())


class ProcA(desper.Processor):
    def __init__(self, *args, **kwargs):
        self.args = args
        self.kwargs = kwargs

    def process(self, dt):
        pass


class ProcB(ProcA):
    pass


OBJ1 = object()
ZERO = 0             # importable names whose objects are falsy
NOTHING = None
EMPTY = ()
CONST = 42
MARKER_STRING = 'plain resolved string'


class Namespace:
    inner = ('nested', 'object')
