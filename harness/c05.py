"""C05 — deferred entity deletion is applied at the next process, safely.

H(L) over entities that get delete_entity (deferred) mixed with every other World operation, then k
process() calls; a logging processor; handler components; one on_remove may raise at a *symbolic*
position (an unconstrained solver integer compared with the running on_remove count of the frame).
"""
import desper
from desper.logic.world import World

PROPERTY = 'C05'

LOG = []
FAULT = {'at': None, 'count': 0, 'armed': False, 'fired': False}


class Boom(Exception):
    pass


@desper.event_handler('on_add', 'on_remove')
class H:
    def on_add(self, entity, world):
        LOG.append(('on_add', entity, self))

    def on_remove(self, entity, world):
        LOG.append(('on_remove', entity, self))
        if FAULT['armed'] and not FAULT['fired']:
            k = FAULT['count']
            FAULT['count'] += 1
            if FAULT['at'] is not None and FAULT['at'] == k:     # solver decision when symbolic
                FAULT['fired'] = True
                raise Boom('injected fault in on_remove #%d' % k)


class H2(H):
    pass


CASCADE = {'kind': None, 'target': None, 'fired': False}


class Hc(H):
    """on_remove cascades: deletes another entity (deferred or immediate), once, during the deletion phase"""

    def on_remove(self, entity, world):
        super().on_remove(entity, world)
        if FAULT['armed'] is not None and CASCADE['kind'] and not CASCADE['fired'] and CASCADE['phase']:
            t = CASCADE['target']
            if t != entity and world.get_components(t):
                CASCADE['fired'] = True
                LOG.append(('cascade', CASCADE['kind'], t))
                world.delete_entity(t, immediate=(CASCADE['kind'] == 'immediate'))


class N:
    pass


class P(desper.Processor):
    def process(self, dt):
        LOG.append(('process', dt))


class P2(desper.Processor):
    priority = 3

    def process(self, dt):
        LOG.append(('process', dt))


CLASSES = [H, H2, N]
SETS = [[H], [N], [H, N], [H, H2]]
SETS_CASCADE = [[Hc], [H], [Hc, N], [N]]


class Model:
    def __init__(self):
        self.ents = {}
        self.dead = set()
        self.tainted = set()

    def owners(self):
        return {e for e, c in self.ents.items() if c}


def observe(sp, w, m, ids, when):
    for e in ids:
        comps = m.ents.get(e, {})
        got = w.get_components(e)
        sp.check(sorted(id(c) for c in got) == sorted(id(c) for c in comps.values()), 'get_components',
                 '%s: get_components(%r) = %r, model %r' % (when, e, got, list(comps.values())))
        alive = bool(comps) and e not in m.dead
        sp.check(w.entity_exists(e) is alive, 'entity_exists',
                 '%s: entity_exists(%r) is %s, expected %s' % (when, e, w.entity_exists(e), alive))
    sp.check(sorted(w.entities, key=repr) == sorted((e for e in m.owners() if e not in m.dead), key=repr),
             'entities', '%s: entities = %r' % (when, w.entities))


def do_process(sp, w, m, ids, when, fault_allowed):
    """One frame.  Returns False when the frame failed because of the injected fault."""
    start = len(LOG)
    FAULT['armed'] = fault_allowed
    FAULT['count'] = 0
    CASCADE['phase'] = True
    dt = 7
    doomed = sorted((e for e in m.dead if m.ents.get(e)), key=repr)
    try:
        w.process(dt)
        failed = False
        if getattr(m, 'ghost', False):
            m.ghost = False
    except Boom:
        failed = True
    except KeyError as ex:
        if getattr(m, 'ghost', False) and ex.args == ('ghost',):
            # the documented error for deleting an entity that does not exist; it must not repeat
            m.ghost = False
            FAULT['armed'] = False
            CASCADE['phase'] = False
            sp.cover('ghost-frame-failed')
            m.recovering = True     # entities served before the KeyError were already notified in that frame
            return do_process(sp, w, m, ids, when + ' (after the ghost KeyError)', fault_allowed)
        FAULT['armed'] = False
        sp.fail('process-raises', '%s: process() raised %r' % (when, ex), recovering=not fault_allowed)
    except Exception as ex:         # noqa
        FAULT['armed'] = False
        import traceback
        sp.fail('process-raises', '%s: process() raised %r at %s' % (
            when, ex, traceback.extract_tb(ex.__traceback__)[-1][:3]), recovering=not fault_allowed)
    FAULT['armed'] = False
    CASCADE['phase'] = False
    frame = [r for r in LOG[start:] if r[0] != 'cascade']
    keep = None
    for r in LOG[start:]:
        if r[0] == 'cascade':
            # a callback deleted another entity during the deletion phase
            sp.cover('cascade-' + r[1])
            t = r[2]
            if r[1] == 'immediate' or not w.get_components(t):
                if t in doomed:
                    doomed.remove(t)        # notified by the immediate path or already served; counted below
                    for c in m.ents.get(t, {}).values():
                        if isinstance(c, H):
                            n = sum(1 for q in frame if q[0] == 'on_remove' and q[2] is c and q[1] == t)
                            sp.check(n == 1, 'notified', '%s: cascaded entity %r: handler got %d on_remove calls' % (when, t, n))
                m.ents.pop(t, None)
                m.dead.discard(t)
            else:
                m.dead.add(t)               # deferred cascade not served in this frame: pending for the next
                if t in doomed:
                    doomed.remove(t)
                keep = t
    kinds = [r[0] for r in frame]
    if 'process' in kinds:
        first_proc = kinds.index('process')
        sp.check('on_remove' not in kinds[first_proc:], 'remove-before-processors',
                 '%s: an on_remove ran after a processor in the same frame: %r' % (when, kinds))
    if failed:
        sp.cover('frame-failed')
        sp.check('process' not in kinds, 'remove-before-processors',
                 '%s: processors ran in a frame whose deletion phase failed' % when)
        return False
    # a completed frame: every processor ran once, dead entities are gone and notified
    sp.check(kinds.count('process') == len(w.processors), 'processors-run',
             '%s: %d processor calls for %d processors' % (when, kinds.count('process'), len(w.processors)))
    for e in doomed:
        sp.cover('frame-deletes')
        if m_recovering(m):
            continue
        for c in m.ents[e].values():
            if isinstance(c, H):
                n = sum(1 for r in frame if r[0] == 'on_remove' and r[2] is c and r[1] == e)
                sp.check(n == 1, 'notified',
                         '%s: handler component of deleted entity %r got %d on_remove calls' % (when, e, n))
    for e in list(m.dead):
        if e != keep:
            m.ents.pop(e, None)
    m.dead = {keep} if keep is not None and keep in m.ents else set()
    m.tainted.clear()
    m.recovering = False
    return True


def m_recovering(m):
    return getattr(m, 'recovering', False)


def h_defer(sp, L=3, K=2, ids=(1, 2), fault=True, procs=1, build=False, cascade=False, ghost=False):
    del LOG[:]
    FAULT.update(at=None, count=0, armed=False, fired=False)
    CASCADE.update(kind=None, target=None, fired=False, phase=False)
    sets = SETS_CASCADE if cascade else SETS
    w = World()
    m = Model()
    for p in [P(), P2()][:procs]:
        w.add_processor(p)
    ids = list(ids)
    if fault and sp.flag('inject-fault'):
        FAULT['at'] = sp.int('fault-position')
        sp.assume(FAULT['at'] >= 0)
    n_ops = 7 if ghost else 6
    if build:
        # shape I: a state built through the public API from symbolic choices (reachable by construction)
        for e in ids:
            k = sp.choose(len(sets) + 1, 'build%r' % (e,))
            if k < len(sets):
                comps = [T() for T in sets[k]]
                w.create_entity(*comps, entity_id=e)
                m.ents[e] = {type(c): c for c in comps}
                sp.note('build create_entity(%s, entity_id=%r)' % (', '.join(T.__name__ for T in sets[k]), e))
        for e in ids:
            if e in m.ents and sp.flag('build-dead%r' % (e,)):
                w.delete_entity(e)
                m.dead.add(e)
                sp.cover('delete-deferred')
                sp.note('build delete_entity(%r)' % (e,))
        if cascade:
            CASCADE['kind'] = sp.pick(['deferred', 'immediate'], 'cascade-kind')
            CASCADE['target'] = sp.pick(ids, 'cascade-target')
            sp.note('an Hc.on_remove will delete_entity(%r, %s) once' % (CASCADE['target'], CASCADE['kind']))
        observe(sp, w, m, ids, 'after build')

    def step_ops(step):
        op = sp.choose(n_ops, 'op%d' % step)
        when = 'step %d' % step
        if op == 6:
            # delete_entity of an id that owns nothing (user error, documented KeyError at the next process):
            # that frame may fail, the frame after it must not
            sp.note("delete_entity('ghost')")
            w.delete_entity('ghost')
            sp.cover('ghost-deleted')
            m.ghost = True
            observe(sp, w, m, ids, when)
            return
        if op == 5:
            sp.note('process()')
            ok = do_process(sp, w, m, ids, when, fault_allowed=True)
            if not ok:
                # a failed frame: the very next fault-free frame must complete
                m.recovering = True
                sp.note('process()   # after the failed frame')
                ok2 = do_process(sp, w, m, ids, when + ' (recovery)', fault_allowed=False)
                sp.check(ok2, 'recovery', 'frame after a failed frame failed too')
                sp.cover('recovered')
            observe(sp, w, m, ids, when)
            return
        try:
            if op == 0:
                e = sp.pick(ids, 'e%d' % step)
                ts = sp.pick(sets, 'set%d' % step)
                if e in m.tainted:
                    sp.assume(False)
                comps = [T() for T in ts]
                sp.note('create_entity(%s, entity_id=%r)' % (', '.join(T.__name__ for T in ts), e))
                w.create_entity(*comps, entity_id=e)
                for c in comps:
                    m.ents.setdefault(e, {})[type(c)] = c
            elif op == 1:
                e = sp.pick(ids, 'e%d' % step)
                T = sp.pick(CLASSES, 't%d' % step)
                if e in m.tainted:
                    sp.assume(False)
                c = T()
                sp.note('add_component(%r, %s)' % (e, T.__name__))
                w.add_component(e, c)
                m.ents.setdefault(e, {})[T] = c
            elif op == 2:
                e = sp.pick(ids, 'e%d' % step)
                T = sp.pick(CLASSES, 't%d' % step)
                sp.note('remove_component(%r, %s)' % (e, T.__name__))
                r = w.remove_component(e, T)
                comps = m.ents.get(e, {})
                if r is not None:
                    sp.check(any(r is c for c in comps.values()), 'remove-returns',
                             'remove_component returned a component that is not attached')
                    del comps[type(r)]
                    if not comps:
                        m.ents.pop(e, None)
                        if e in m.dead:
                            m.tainted.add(e)
                            sp.cover('emptied-while-dead')
            elif op in (3, 4):
                owners = sorted(m.owners(), key=repr)
                if not owners:
                    sp.assume(False)
                e = sp.pick(owners, 'e%d' % step)
                if op == 3:
                    sp.note('delete_entity(%r)' % (e,))
                    if e in m.dead:
                        sp.cover('deleted-again')
                    before = sorted(id(c) for c in w.get_components(e))
                    w.delete_entity(e)
                    m.dead.add(e)
                    sp.cover('delete-deferred')
                    sp.check(sorted(id(c) for c in w.get_components(e)) == before, 'components-stay',
                             'delete_entity(%r) changed get_components at once' % (e,))
                    sp.check(w.entity_exists(e) is False, 'stops-existing',
                             'entity_exists(%r) still true right after delete_entity' % (e,))
                else:
                    sp.note('delete_entity(%r, immediate=True)' % (e,))
                    w.delete_entity(e, immediate=True)
                    m.ents.pop(e, None)
                    if e in m.dead:
                        m.dead.discard(e)
                        m.tainted.add(e)
                        sp.cover('immediate-while-dead')
        except Exception as ex:     # noqa
            sp.fail('op-raises', '%s: operation raised %r' % (when, ex))
        observe(sp, w, m, ids, when)

    for step in range(L):
        step_ops(step)
    for k in range(K):
        sp.note('process()   # trailing frame %d' % k)
        ok = do_process(sp, w, m, ids, 'trailing frame %d' % k, fault_allowed=True)
        if not ok:
            m.recovering = True
            ok2 = do_process(sp, w, m, ids, 'trailing frame %d (recovery)' % k, fault_allowed=False)
            sp.check(ok2, 'recovery', 'frame after a failed frame failed too')
            sp.cover('recovered')
        observe(sp, w, m, ids, 'after trailing frame %d' % k)
    # the identifier is free again: a new entity may take it and is alive
    for e in ids:
        if e not in m.ents:
            c = N()
            try:
                w.create_entity(c, entity_id=e)
            except Exception as ex:     # noqa
                sp.fail('op-raises', 'create_entity(entity_id=%r) on a freed id raised %r' % (e, ex))
            m.ents[e] = {N: c}
            sp.cover('id-reused')
    observe(sp, w, m, ids, 'after reusing freed ids')
    ok = do_process(sp, w, m, ids, 'final frame', fault_allowed=False)
    sp.check(ok, 'recovery', 'final frame failed')
    observe(sp, w, m, ids, 'after final frame')
    sp.done()


HARNESSES = {
    'defer': dict(fn=h_defer,
                  nontrivial=['delete-deferred', 'frame-deletes', 'frame-failed', 'deleted-again',
                              'emptied-while-dead', 'immediate-while-dead', 'recovered', 'id-reused'],
                  required=['delete-deferred', 'frame-deletes', 'frame-failed', 'deleted-again',
                            'emptied-while-dead', 'immediate-while-dead', 'recovered', 'id-reused']),
}
TIERS = {
    'quick': [('defer', dict(L=3, K=1)),
              ('defer', dict(L=1, K=2, build=True, cascade=True, fault=False), dict(required=['cascade-immediate', 'cascade-deferred', 'frame-deletes'])),
              ('defer', dict(L=1, K=1, build=True, ids=(0, '')), dict(required=['delete-deferred', 'frame-deletes', 'id-reused'])),
              ('defer', dict(L=1, K=1, build=True, ids=((1, 2), 1)), dict(required=['delete-deferred', 'frame-deletes'])),
              ('defer', dict(L=2, K=2, build=True, ghost=True, fault=False, ids=(1,)),
               dict(required=['ghost-deleted', 'ghost-frame-failed', 'frame-deletes'])),
              ('defer', dict(L=1, K=1, build=True), dict(required=['delete-deferred', 'frame-deletes', 'frame-failed', 'recovered']))],
    'thorough': [('defer', dict(L=4, K=2)), ('defer', dict(L=2, K=2, build=True, ghost=True, fault=False),
                  dict(required=['ghost-deleted', 'ghost-frame-failed', 'frame-deletes', 'delete-deferred'])), ('defer', dict(L=2, K=2, build=True, cascade=True, fault=False),
                  dict(required=['cascade-immediate', 'cascade-deferred', 'frame-deletes', 'delete-deferred'])), ('defer', dict(L=3, K=1, ids=(0, ''))), ('defer', dict(L=2, K=2, build=True, procs=2)), ('defer', dict(L=5, K=1, ids=(1,), procs=2)),
                 ('defer', dict(L=3, K=3, procs=2))],
}
BUDGET_S = {'quick': 150, 'thorough': 1500}
EXPLANATION = (
    'Bounded symbolic execution of World.delete_entity / _clear_dead_entities / process / remove_component on the '
    'real code: all operation sequences of length <= L mixing deferred deletion with create/add/remove/immediate '
    'delete/process, followed by K further frames; the position at which one on_remove callback raises is an '
    'unconstrained z3 integer compared with the running on_remove index, so every delivery position is covered by '
    'solver-decided forks.  After each operation entity_exists/entities/get_components are compared with the '
    'reference model; within each frame on_remove records must precede processor records; process() must not raise '
    'except for the injected fault, and the frame after a failed frame must complete.')
RULE = ('one evaluation = one feasible path (operation sequence x fault position class); non-trivial = contains a '
        'deferred deletion, a frame that deletes, a failed frame, a re-deletion, emptying or immediate deletion of a '
        'marked entity, or re-use of a freed id')
BOUNDS = {'quick': 'L=3 operations + 1 trailing frame, ids 1,2, classes H, H2(H), N, one processor, one fault; built state (4 component sets or none per id, dead bits) + L=1 + 1 frame',
          'thorough': 'L=4 + 2 frames; L=5 + 1 frame with one id and two processors; L=3 + 3 frames'}
ASSUMPTIONS = [
    'ghost variant: delete_entity of an id that owns nothing is a user error whose documented KeyError surfaces at the next process(); that frame may fail or not, but the frame after it must complete (a failed process never repeats forever)',
    'cascade variant: one on_remove callback may delete another entity (deferred or immediate) during the deletion phase; a deferred cascade may be served in the same frame or in the next one (both accepted)',
    'entity ids may be falsy (0 and the empty string)',
    'delete_entity is only called on entities that own components at that moment ("existed when delete_entity was called")',
    'at most one injected fault per history, raised by an on_remove callback during the deletion phase of a frame; after a '
    'failed frame only the statement\'s claim is checked (the next frame completes and the marked entities are gone); '
    'how often on_remove is delivered across the failed and the recovering frame is not checked',
    're-populating an id emptied while its deferred-deletion mark was pending is outside the claim (as in C01)',
]
OUTSIDE = ['callbacks that mutate the world during the deletion phase other than one cascading delete_entity of another entity', 'faults raised by processors', 'histories longer than L+K']

TECHNIQUE = 'bounded symbolic execution (symx/z3) of deletion histories; fault position is an unconstrained z3 integer'
