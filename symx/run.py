"""symx.run — drive the harnesses of one property: split the decision tree into shards, explore
them on a process pool, replay counterexamples concretely, write the evidence file.

usage:  python -m symx.run <ID> [--tier quick|thorough]
        python -m symx.run <ID> --replay FILE
exit:   0 held on everything explored (or only known findings)
        1 violation (replayed concretely against the real code)
        3 inconclusive / harness error (solver unknown, non-reproducing model, vacuity, ...)
"""
from __future__ import annotations

import argparse
import collections
import concurrent.futures as cf
import hashlib
import importlib
import json
import multiprocessing
import os
import subprocess
import sys
import time
import traceback

VERIF = os.path.dirname(os.path.dirname(os.path.abspath(__file__)))
REPO = os.environ.get('DESPER_REPO', '/repo')
GUARD = 'BALL_MAN_DESPER_VERIF'


def _setup_paths():
    os.environ.setdefault(GUARD, '1')
    sys.dont_write_bytecode = True
    for p in (VERIF, REPO):
        if p not in sys.path:
            sys.path.insert(0, p)


_setup_paths()

from symx import space as sx            # noqa: E402
from symx.space import (Space, ConcreteSpace, Violation, Infeasible, Cut, TwinReached,   # noqa: E402
                        Inconclusive, KnownHit, Nondeterminism, encode_value, decode_value)


def load_harness(pid):
    mod = importlib.import_module('harness.%s' % pid.lower())
    import desper
    assert os.path.abspath(desper.__file__).startswith(os.path.abspath(REPO) + os.sep), \
        'desper imported from %s, not from %s' % (desper.__file__, REPO)
    if not getattr(mod, '_bystander_wrapped', False):
        # every harness function accepts the reserved parameter `_bystander` (harness/bystander.py)
        from harness import bystander
        for spec in mod.HARNESSES.values():
            if spec.get('kind') != 'custom' and callable(spec.get('fn')):
                spec['fn'] = bystander.wrap(spec['fn'])
        mod._bystander_wrapped = True
    return mod


# ----------------------------------------------------------------------------------------------
# known findings
def load_known(pid):
    path = os.path.join(VERIF, 'known_findings.json')
    if not os.path.exists(path):
        return []
    with open(path) as f:
        data = json.load(f)
    return [e for e in data.get('findings', []) if e.get('property') == pid]


def make_known_matcher(entries, hname):
    if not entries:
        return None

    def known(clause, info):
        for e in entries:
            if e.get('harness') not in (None, hname):
                continue
            if e['clause'] != clause:
                continue
            if all(info.get(k) == v for k, v in e.get('match', {}).items()):
                return e
        return None
    return known


# ----------------------------------------------------------------------------------------------
# function collector (sys.monitoring, python >= 3.12)
class FuncCollector:
    TOOL = 4

    def __init__(self):
        self.names = set()
        self.on = False
        self.prefix = os.path.join(os.path.abspath(REPO), 'desper') + os.sep

    def start(self):
        mon = getattr(sys, 'monitoring', None)
        if mon is None:
            return
        try:
            mon.use_tool_id(self.TOOL, 'symx-funcs')
        except ValueError:
            return

        def cb(code, off):
            fn = code.co_filename
            if fn.startswith(self.prefix):
                self.names.add('%s:%s' % (fn[len(self.prefix) - 7:], code.co_qualname))
            return mon.DISABLE
        mon.register_callback(self.TOOL, mon.events.PY_START, cb)
        mon.set_events(self.TOOL, mon.events.PY_START)
        self.on = True

    def stop(self):
        if not self.on:
            return
        mon = sys.monitoring
        mon.set_events(self.TOOL, 0)
        mon.register_callback(self.TOOL, mon.events.PY_START, None)
        mon.free_tool_id(self.TOOL)
        self.on = False


# ----------------------------------------------------------------------------------------------
def new_result():
    return dict(paths=0, infeasible=0, queries=0, q_sat=0, q_unsat=0, q_unknown=0,
                solver_time=0.0, covers=collections.Counter(), nontrivial=0, violations=[],
                known=collections.Counter(), inconclusive=[], samples=[], exhausted=True,
                funcs=set(), cuts=[], concolic_checked=0, errors=[])


def merge(a, b):
    for k in ('paths', 'infeasible', 'queries', 'q_sat', 'q_unsat', 'q_unknown', 'nontrivial',
              'concolic_checked'):
        a[k] += b[k]
    a['solver_time'] += b['solver_time']
    a['covers'].update(b['covers'])
    a['known'].update(b['known'])
    a['violations'].extend(b['violations'])
    a['inconclusive'].extend(b['inconclusive'])
    a['errors'].extend(b['errors'])
    if len(a['samples']) < 6:
        a['samples'].extend(b['samples'][:6 - len(a['samples'])])
    a['exhausted'] = a['exhausted'] and b['exhausted']
    a['funcs'] |= b['funcs']
    return a


def _jsonable(v):
    try:
        return encode_value(v)
    except TypeError:
        return repr(v)


class PathTimeout(sx.Control):
    pass


def _on_alarm(signum, frame):
    raise PathTimeout('one path ran longer than the per-path limit')


def explore(fn, params, spec, *, forced=(), seed=0, depth_limit=None, deadline=None,
            known_entries=(), hname='', twin=False, collect_funcs=False, max_samples=2,
            concolic=False, stop_on_violation=True, stop_file=None):
    """Exhaust (a shard of) the decision tree of fn(sp, **params)."""
    res = new_result()
    sp = Space(nonlinear=spec.get('nonlinear', False), timeout_ms=spec.get('timeout_ms', 30000),
               seed=seed, forced=forced, depth_limit=depth_limit, twin=twin,
               known=make_known_matcher(list(known_entries), hname))
    nontrivial_tags = set(spec.get('nontrivial', ()))
    # per-path watchdog: code under test that never returns must not hang the check (reported as inconclusive)
    import signal
    import threading
    path_limit = float(spec.get('path_timeout_s', os.environ.get('VERIF_PATH_TIMEOUT', 120)))
    use_alarm = threading.current_thread() is threading.main_thread() and hasattr(signal, 'setitimer')
    if use_alarm:
        signal.signal(signal.SIGALRM, _on_alarm)
    fc = FuncCollector() if collect_funcs else None
    npaths_traced = 0
    while True:
        if deadline is not None and time.time() > deadline:
            res['exhausted'] = False
            break
        if stop_file is not None and res['paths'] % 64 == 0 and os.path.exists(stop_file):
            res['exhausted'] = False
            break
        if fc is not None and npaths_traced < 40:
            fc.start()
        sp.begin()
        completed = False
        try:
            try:
                if use_alarm:
                    signal.setitimer(signal.ITIMER_REAL, path_limit, 0.5)   # re-fires: a raise inside __del__ is swallowed
                try:
                    fn(sp, **params)
                finally:
                    if use_alarm:
                        signal.setitimer(signal.ITIMER_REAL, 0)
                completed = True
            except PathTimeout as e:
                res['inconclusive'].append(dict(why='path timeout after %.0f s (the code under test or the harness does not '
                                                    'terminate on this path)' % path_limit,
                                                decisions=[_jsonable(d) for d in sp.decisions()]))
                res['errors'].append('path timeout after %.0f s; decisions %r; trace tail %r' % (
                    path_limit, sp.decisions()[-12:], sp.trace_lines()[-6:]))
                res['exhausted'] = False
                sp.end()
                break
            except Violation as v:
                v.assignment = sp.assignment()
                try:
                    scaled = sp.assignment_scaled(v.assignment)
                except Exception:       # noqa  (a nicety, never a verdict)
                    scaled = None
                v.decisions = sp.decisions()
                v.trace = sp.trace_lines()
                res['violations'].append(dict(
                    clause=v.clause, info={k: _jsonable(x) for k, x in v.info.items()},
                    detail=str(v.detail),
                    assignment={k: encode_value(x) for k, x in v.assignment.items()},
                    assignment_scaled=({k: encode_value(x) for k, x in scaled.items()} if scaled else None),
                    decisions=[_jsonable(d) for d in v.decisions], trace=v.trace))
                completed = True
            except KnownHit as k:
                res['known'][k.entry['id']] += 1
                completed = True
            except TwinReached:
                res['covers']['twin-reached'] += 1
                sp.end()
                if fc is not None:
                    fc.stop()
                    res['funcs'] |= fc.names
                res['paths'] += 1
                _stats(sp, res)
                return res
            except Infeasible:
                res['infeasible'] += 1
            except Cut:
                res['cuts'].append(sp.decisions())
            except Inconclusive as e:
                res['inconclusive'].append(dict(why=e.why, decisions=[_jsonable(d) for d in sp.decisions()]))
            except Nondeterminism as e:
                res['errors'].append('nondeterminism: %s' % e)
                sp.end()
                break
            except sx.Control:
                raise
            except BaseException as e:      # harness or proxy bug: never a verdict
                if isinstance(e, (KeyboardInterrupt, SystemExit)):
                    raise
                res['errors'].append('harness crashed: %s\n%s' % (
                    repr(e), ''.join(traceback.format_exception(type(e), e, e.__traceback__)[-6:])))
                sp.end()
                break
            if completed:
                res['paths'] += 1
                res['covers'].update(sp.covers)
                if sp.covers & nontrivial_tags:
                    res['nontrivial'] += 1
                if len(res['samples']) < max_samples and not res['violations']:
                    try:
                        asg = sp.assignment(grid=False)
                        res['samples'].append(dict(
                            decisions=[_jsonable(d) for d in sp.decisions()],
                            model={k: _jsonable(x) for k, x in asg.items()},
                            trace=sp.trace_lines()[:40], covers=sorted(sp.covers)))
                    except (Infeasible, Inconclusive):
                        pass
                if concolic and not res['violations']:
                    _concolic(fn, params, sp, res)
        finally:
            if fc is not None and fc.on:
                fc.stop()
                npaths_traced += 1
        sp.end()
        if res['violations'] and stop_on_violation:
            res['exhausted'] = False
            break
        if not sp.backtrack():
            break
    if fc is not None:
        res['funcs'] |= fc.names
    _stats(sp, res)
    return res


def _stats(sp, res):
    res['queries'] = sp.queries
    res['q_sat'] = sp.q_sat
    res['q_unsat'] = sp.q_unsat
    res['q_unknown'] = sp.q_unknown
    res['solver_time'] = sp.solver_time


def _concolic(fn, params, sp, res):
    """Run the path's model concretely: same covers, no violation (validates the proxies)."""
    try:
        asg = sp.assignment()
    except (Infeasible, Inconclusive):
        return
    cs = ConcreteSpace(asg)
    try:
        fn(cs, **params)
    except Violation as v:
        res['errors'].append('concolic mismatch: concrete run violates %s (%s) where the symbolic '
                             'path passed; assignment %r' % (v.clause, v.detail, asg))
        return
    except Infeasible:
        res['errors'].append('concolic mismatch: assumption fails concretely; assignment %r' % (asg,))
        return
    if cs.covers != sp.covers:
        res['errors'].append('concolic mismatch: covers %s vs %s; assignment %r' % (
            sorted(cs.covers), sorted(sp.covers), asg))
        return
    res['concolic_checked'] += 1


# ----------------------------------------------------------------------------------------------
# worker entry (spawned processes)
def worker(job):
    _setup_paths()
    try:
        mod = load_harness(job['pid'])
        spec = mod.HARNESSES[job['harness']]
        r = explore(spec['fn'], job['params'], spec, forced=job['forced'], seed=job['seed'],
                    deadline=job['deadline'], known_entries=job['known'], hname=job['harness'],
                    concolic=job.get('concolic', False), stop_file=job.get('stop_file'))
    except BaseException as e:      # noqa
        r = new_result()
        r['errors'].append('worker crashed: %r\n%s' % (e, traceback.format_exc()[-1500:]))
    r['job'] = (job['harness'], job['index'])
    return r


def custom_worker(job):
    _setup_paths()
    try:
        mod = load_harness(job['pid'])
        spec = mod.HARNESSES[job['harness']]
        r = new_result()
        out = spec['fn'](tier=job['tier'], seed=job['seed'], deadline=job['deadline'], **job['params'])
        for k, v in out.items():
            if k == 'covers':
                r['covers'].update(v)
            elif k == 'funcs':
                r['funcs'] |= set(v)
            else:
                r[k] = v
    except BaseException as e:      # noqa
        r = new_result()
        r['errors'].append('custom harness crashed: %r\n%s' % (e, traceback.format_exc()[-1500:]))
    r['job'] = (job['harness'], job['index'])
    return r


# ----------------------------------------------------------------------------------------------
def write_replay(pid, hname, params, viol):
    d = os.path.join(VERIF, 'replays', pid)
    os.makedirs(d, exist_ok=True)
    body = dict(property=pid, harness=hname, params=params, clause=viol['clause'], info=viol['info'],
                detail=viol['detail'], assignment=viol['assignment'],
                assignment_scaled=viol.get('assignment_scaled'), decisions=viol['decisions'],
                trace=viol['trace'])
    blob = json.dumps(body, sort_keys=True, indent=1)
    h = hashlib.sha1(blob.encode()).hexdigest()[:12]
    path = os.path.join(d, '%s-%s.json' % (hname, h))
    with open(path, 'w') as f:
        f.write(blob)
    return path


def do_replay(path, quiet=False):
    """Run the recorded assignment through the same harness on plain python values.
    returns (reproduced: bool, text)."""
    with open(path) as f:
        body = json.load(f)
    mod = load_harness(body['property'])
    spec = mod.HARNESSES[body['harness']]
    asg = {k: decode_value(v) for k, v in body['assignment'].items()}
    out = []
    # reals are replayed as floats (exact on the dyadic grid) and, if that does not reproduce, as Fractions:
    # both are exact numbers; code that treats them differently is part of what a counterexample may show
    from fractions import Fraction
    flavours = [(float, asg), (Fraction, asg)]
    if body.get('assignment_scaled'):
        # big integers that are not representable as floats (z3 confirmed they satisfy the path condition)
        flavours.append((int, {k: decode_value(v) for k, v in body['assignment_scaled'].items()}))
    for real_as, values in flavours:
        cs = ConcreteSpace(values, real_as=real_as)
        try:
            spec['fn'](cs, **body['params'])
            reproduced = False
            out.append('replay (%s reals): harness completed without violation (NOT reproduced)' % real_as.__name__)
        except Violation as v:
            reproduced = True
            out.append('replay (%s reals): violated clause %s %s' % (real_as.__name__, v.clause, v.detail))
            out.append('        info %s' % (v.info,))
        except Infeasible:
            reproduced = False
            out.append('replay (%s reals): an assumption failed concretely (NOT reproduced)' % real_as.__name__)
        if reproduced or not any(isinstance(x, Fraction) for x in asg.values()):
            break
    out.append('trace:')
    out.extend('   ' + t for t in cs.trace[-60:])
    return reproduced, '\n'.join(out)


def replay_subprocess(path):
    """Replay in a fresh interpreter importing /repo."""
    p = subprocess.run([sys.executable, '-m', 'symx.run', 'X', '--replay', path],
                       cwd=VERIF, capture_output=True, text=True, timeout=600,
                       env=dict(os.environ, PYTHONPATH=VERIF, PYTHONDONTWRITEBYTECODE='1'))
    text = '\n'.join(l for l in (p.stdout + p.stderr).splitlines() if not l.startswith('VIOLATION '))
    return p.returncode == 1, text


# ----------------------------------------------------------------------------------------------
def run_property(pid, tier, seed):
    t0 = time.time()
    mod = load_harness(pid)
    known_entries = load_known(pid)
    ncpu = int(os.environ.get('VERIF_JOBS', os.cpu_count() or 4))
    budget = mod.BUDGET_S.get(tier, 600) if hasattr(mod, 'BUDGET_S') else (90 if tier == 'quick' else 900)
    deadline = t0 + budget
    plan = mod.TIERS[tier]
    per = collections.OrderedDict()     # (hname, idx) -> aggregate
    jobs = []
    problems = []                       # harness errors -> exit 3
    # engine self-test: proxy operators against exact python arithmetic on pinned values
    selftest_info = 'not run'
    try:
        from symx import selftest
        n_cmp, n_q = selftest.run()
        selftest_info = '%d operator comparisons, %d solver queries, all agree' % (n_cmp, n_q)
    except Exception as e:      # noqa
        problems.append('engine self-test failed: %r' % (e,))
        selftest_info = 'FAILED: %r' % (e,)
    for idx, entry in enumerate(plan):
        hname, params = entry[0], entry[1]
        spec = mod.HARNESSES[hname]
        if tier == 'quick' and spec.get('kind') != 'custom' and getattr(mod, 'BYSTANDERS', True):
            # quick tier: a second set of independent desper objects is alive during every path and must be untouched
            params = dict(params, _bystander=True)
        key = (hname, idx)
        agg = new_result()
        agg['params'] = params
        agg['required'] = (entry[2].get('required') if len(entry) > 2 else None)
        agg['shards'] = 0
        per[key] = agg
        if spec.get('kind') == 'custom':
            jobs.append(dict(kind='custom', pid=pid, harness=hname, index=idx, params=params, tier=tier,
                             seed=seed, deadline=deadline))
            agg['shards'] = 1
            continue
        # reachability twin (vacuity guard): same harness, done() raises; must be reachable
        tw = explore(spec['fn'], params, spec, seed=seed, twin=True, known_entries=known_entries,
                     hname=hname, deadline=deadline, stop_on_violation=False)
        agg['twin_reached'] = tw['covers'].get('twin-reached', 0) > 0
        agg['twin_paths'] = tw['paths']
        if not agg['twin_reached'] and not tw['violations'] and not tw['known']:
            problems.append('%s: reachability twin not refuted (harness never reaches done())' % hname)
        if tw['errors']:
            problems.extend('%s: %s' % (hname, e) for e in tw['errors'])
        # splitter
        target = spec.get('shards', 6 * ncpu)
        if spec.get('split', True) is False or ncpu == 1:
            target = 1
        depth = 0
        front = None
        while True:
            depth += 1 if depth < 8 else 2
            front = explore(spec['fn'], params, spec, seed=seed, depth_limit=depth if target > 1 else None,
                            known_entries=known_entries, hname=hname, deadline=deadline,
                            collect_funcs=True,
                            concolic=(tier == 'thorough' and spec.get('concolic', False)))
            if not front['cuts'] or len(front['cuts']) >= target or front['violations'] \
                    or _fatal(front['errors']) or depth > 60 or not front['exhausted']:
                break
        cuts = front.pop('cuts')
        front['cuts'] = []
        merge(agg, front)
        if front['violations'] or _fatal(front['errors']):
            continue        # a verdict or a path timeout already: no point in exploring the shards
        rng_order = list(range(len(cuts)))
        import random
        random.Random(seed).shuffle(rng_order)
        for j in rng_order:
            jobs.append(dict(kind='symx', pid=pid, harness=hname, index=idx, params=params,
                             forced=cuts[j], seed=seed + j + 1, deadline=deadline, known=known_entries,
                             concolic=(tier == 'thorough' and spec.get('concolic', False))))
            agg['shards'] += 1
    # ------------------------------------------------------------------ pool
    stop_file = os.path.join(VERIF, 'replays', '.stop-%s-%d' % (pid, os.getpid()))
    os.makedirs(os.path.dirname(stop_file), exist_ok=True)
    for j in jobs:
        j['stop_file'] = stop_file
    if jobs and not any(a['violations'] for a in per.values()):
        ctx = multiprocessing.get_context('spawn')
        with cf.ProcessPoolExecutor(max_workers=min(ncpu, len(jobs)), mp_context=ctx) as ex:
            futs = [ex.submit(custom_worker if j['kind'] == 'custom' else worker, j) for j in jobs]
            fkey = {fu: (j['harness'], j['index']) for fu, j in zip(futs, jobs)}
            stop = False
            errored = set()
            for fu in cf.as_completed(futs):
                if fu.cancelled():
                    continue
                r = fu.result()
                key = r.pop('job')
                r.pop('cuts', None)
                r['cuts'] = []
                merge(per[key], r)
                if r['violations'] and not stop:
                    # a verdict: nothing else needs to run
                    stop = True
                    open(stop_file, 'w').close()
                    for other in futs:
                        other.cancel()
                elif _fatal(r['errors']) and key not in errored:
                    # a path timeout makes THIS entry inconclusive and every further shard of it would burn the same
                    # time; the other entries (and, for any other kind of error, the other shards) may still find a
                    # violation, which takes precedence over harness errors
                    errored.add(key)
                    for other in futs:
                        if fkey[other] == key:
                            other.cancel()
        if os.path.exists(stop_file):
            os.unlink(stop_file)
    # ------------------------------------------------------------------ verdicts
    violations_confirmed = []
    for (hname, idx), agg in per.items():
        spec = mod.HARNESSES[hname]
        for e in agg['errors']:
            problems.append('%s: %s' % (hname, e))
        for inc in agg['inconclusive'][:3]:
            problems.append('%s: inconclusive: %s' % (hname, inc['why']))
        if agg['q_unknown']:
            problems.append('%s: %d solver queries returned unknown' % (hname, agg['q_unknown']))
        for v in agg['violations'][:3]:
            if v.get('replay_path'):
                path = v['replay_path']
                ok, text = v.get('reproduced', True), v.get('replay_text', '')
            else:
                path = write_replay(pid, hname, agg['params'], v)
                ok, text = replay_subprocess(path)
            if ok:
                violations_confirmed.append((hname, v, path, text))
            else:
                problems.append('%s: counterexample for clause %s did not reproduce concretely '
                                '(proxy/stub unfaithful?) replay=%s\n%s' % (hname, v['clause'], path, text))
        if not agg['violations'] and agg['exhausted']:
            for tag in (agg.get('required') if agg.get('required') is not None else spec.get('required', ())):
                if not agg['covers'].get(tag):
                    problems.append('%s: vacuity: cover tag %r never hit' % (hname, tag))
    wall = time.time() - t0
    total = new_result()
    for agg in per.values():
        merge(total, {k: agg[k] for k in new_result().keys()})
    exhaustive = all(a['exhausted'] for a in per.values()) and not violations_confirmed
    write_evidence(pid, tier, seed, mod, per, total, wall, exhaustive, violations_confirmed, problems,
                   known_entries, selftest_info)
    # ------------------------------------------------------------------ report
    for e in known_entries:
        hits = sum(a['known'].get(e['id'], 0) for a in per.values())
        if hits:
            print('KNOWN-FINDING: property=%s %s (matched on %d paths)' % (pid, e['what'], hits))
    print('%s %s: %d paths, %d solver queries (%d sat, %d unsat, %d unknown), solver %.2fs, wall %.1fs, '
          'exhaustive=%s' % (pid, tier, total['paths'], total['queries'], total['q_sat'], total['q_unsat'],
                             total['q_unknown'], total['solver_time'], wall, exhaustive))
    for (hname, idx), agg in per.items():
        print('   %-14s %-40s paths=%-7d shards=%-4d covers=%s' % (
            hname, json.dumps(agg['params'], sort_keys=True)[:40], agg['paths'], agg['shards'],
            dict(agg['covers'])))
    if violations_confirmed:
        for hname, v, path, text in violations_confirmed:
            print('counterexample (%s, clause %s): %s' % (hname, v['clause'], v['detail']))
            print(text)
            print('VIOLATION property=%s replay=%s' % (pid, path))
        return 1
    if problems:
        for p in problems:
            print('HARNESS-ERROR: %s' % p)
        return 3
    if not exhaustive:
        print('NOTE: wall budget hit before the tree was exhausted: bug-hunting only for the '
              'unexplored part (see evidence)')
    return 0


def _fatal(errors):
    """errors after which exploring more of the same entry is pointless (per-path watchdog expiries)"""
    return any(str(e).startswith('path timeout') for e in errors)


def write_evidence(pid, tier, seed, mod, per, total, wall, exhaustive, viols, problems, known_entries, selftest_info=''):
    harnesses = []
    for (hname, idx), agg in per.items():
        harnesses.append(dict(
            harness=hname, params=agg['params'], paths=agg['paths'], infeasible_paths=agg['infeasible'],
            shards=agg['shards'], queries=agg['queries'], sat=agg['q_sat'], unsat=agg['q_unsat'],
            unknown=agg['q_unknown'], solver_time_s=round(agg['solver_time'], 3),
            covers=dict(agg['covers']), nontrivial_paths=agg['nontrivial'], exhaustive=agg['exhausted'],
            reachability_twin_refuted=agg.get('twin_reached'),
            concolic_cross_checked=agg['concolic_checked'],
            known_findings_matched=dict(agg['known'])))
    samples = total['samples'][:6]
    if not samples:
        samples = [dict(note='no completed path was sampled', harnesses=[h['harness'] for h in harnesses])]
    explanation = mod.EXPLANATION
    if not exhaustive:
        explanation += ('  THIS RUN DID NOT EXHAUST ITS TREE (wall budget or violation): bug-hunting only '
                        'for the unexplored part.')
    ev = dict(
        property_id=pid, tier=tier, seed=seed, level='other', wall_s=round(wall, 2),
        violations=len(viols),
        coverage=dict(
            explanation=explanation,
            evaluations=total['paths'],
            distinct_nontrivial=total['nontrivial'],
            rule=mod.RULE,
            samples=samples,
            exhaustive=bool(exhaustive),
            obligations=total['queries'],
            discharged=total['q_sat'] + total['q_unsat'],
            unknown=total['q_unknown'],
            solver_time_s=round(total['solver_time'], 3),
            checker_cmd='bin/check %s --tier %s' % (pid, tier),
            trusted_base=list(getattr(mod, 'TRUSTED', [])) + [
                'z3 5.1.0 (z3-solver wheel)', 'symx proxies and explorer (/verif/symx)',
                'CPython 3.12 executing the real desper code'],
            functions_encoded=sorted(total['funcs']),
            bounds=mod.BOUNDS.get(tier, mod.BOUNDS) if isinstance(mod.BOUNDS, dict) else mod.BOUNDS,
            outside_claim=list(getattr(mod, 'OUTSIDE', [])),
            harnesses=harnesses,
            harness_errors=problems,
            engine_selftest=selftest_info,
            known_findings_matched={e['id']: sum(a['known'].get(e['id'], 0) for a in per.values())
                                    for e in known_entries},
            violation_replays=[p for (_, _, p, _) in viols],
        ),
        assumptions=list(mod.ASSUMPTIONS),
    )
    evdir = os.environ.get('VERIF_EVIDENCE_DIR') or os.path.join(VERIF, 'evidence')
    os.makedirs(evdir, exist_ok=True)
    with open(os.path.join(evdir, '%s.json' % pid), 'w') as f:
        json.dump(ev, f, indent=1, sort_keys=True, default=str)
    # a copy per tier, so that a quick run does not erase what the last thorough run covered
    os.makedirs(os.path.join(evdir, 'by-tier'), exist_ok=True)
    with open(os.path.join(evdir, 'by-tier', '%s.%s.json' % (pid, tier)), 'w') as f:
        json.dump(ev, f, indent=1, sort_keys=True, default=str)


def main(argv=None):
    ap = argparse.ArgumentParser()
    ap.add_argument('pid')
    ap.add_argument('--tier', default=os.environ.get('VERIF_TIER', 'quick'), choices=['quick', 'thorough'])
    ap.add_argument('--replay')
    a = ap.parse_args(argv)
    if a.replay:
        ok, text = do_replay(a.replay)
        print(text)
        if ok:
            with open(a.replay) as f:
                body = json.load(f)
            print('VIOLATION property=%s replay=%s' % (body['property'], a.replay))
            return 1
        return 0
    seed = int(os.environ.get('VERIF_SEED', '0') or 0)
    return run_property(a.pid.upper(), a.tier, seed)


if __name__ == '__main__':
    sys.exit(main())
