#!/usr/bin/env python3
"""Evaluate a seeded change delivered in a scratch worktree and (optionally) keep it under /verif/seeded/.

usage: seed_eval.py <PID> <worktree> [--name NAME] [--alt] [--tier quick|thorough|both] [--keep]

Steps (all confirmed here, nothing is taken on trust):
  1. patch = `git diff` of the worktree (or alt.diff with --alt, applied on a clean tree);
  2. the 111 tests pass with the patch;
  3. the demo exits 1 with the patch and 0 without it;
  4. the patch is applied to /repo, bin/check <PID> is run, /repo is restored (git checkout -- .).
"""
import argparse
import json
import os
import shutil
import subprocess
import sys

VERIF = os.path.dirname(os.path.dirname(os.path.abspath(__file__)))


def sh(cmd, cwd=None, timeout=3600, env=None):
    """run a shell command in its own process group; on timeout the whole group is killed (no orphans)"""
    import signal
    if 'demo_' in cmd:
        cmd = 'ulimit -v 8000000; ' + cmd
    p = subprocess.Popen(cmd, shell=True, cwd=cwd, stdout=subprocess.PIPE, stderr=subprocess.STDOUT, text=True,
                         env=env, start_new_session=True)
    try:
        out, _ = p.communicate(timeout=300 if 'demo_' in cmd else timeout)
        return p.returncode, out
    except subprocess.TimeoutExpired:
        try:
            os.killpg(p.pid, signal.SIGKILL)
        except ProcessLookupError:
            pass
        p.wait()
        return 124, 'TIMEOUT'


def main():
    ap = argparse.ArgumentParser()
    ap.add_argument('pid')
    ap.add_argument('worktree')
    ap.add_argument('--name')
    ap.add_argument('--alt', action='store_true')
    ap.add_argument('--tier', default='quick')
    ap.add_argument('--keep', action='store_true')
    ap.add_argument('--in-repo', action='store_true')
    ap.add_argument('--also', default='', help='comma separated other property ids whose quick check is run too')
    a = ap.parse_args()
    wt = a.worktree
    pid = a.pid
    suffix = '_alt' if a.alt else ''
    demo = os.path.join(wt, 'demo_%s%s.py' % (pid, suffix))
    meta_f = os.path.join(wt, 'meta_%s%s.json' % (pid, suffix))
    report = dict(property=pid, worktree=wt)
    rc, main_patch = sh('git diff -- desper', cwd=wt)
    mp = '/tmp/seed-main-%s.diff' % pid
    open(mp, 'w').write(main_patch)
    if a.alt:
        patch = open(os.path.join(wt, 'alt.diff')).read()
    else:
        patch = main_patch
    assert patch.strip(), 'empty patch'
    pf = '/tmp/seed-%s%s.diff' % (pid, suffix)
    open(pf, 'w').write(patch)
    # clean tree -> apply the patch under test
    if main_patch.strip():
        rc, out = sh('git apply -R %s' % mp, cwd=wt)
        assert rc == 0, out
    try:
        rc0, out0 = sh('/venv/bin/python %s' % demo, cwd=wt)
        report['demo_without_patch'] = (rc0, out0.strip()[-200:])
        rc, out = sh('git apply %s' % pf, cwd=wt)
        assert rc == 0, out
        try:
            rc, out = sh('/venv/bin/python -m pytest -q -p no:cacheprovider 2>&1 | tail -1', cwd=wt)
            report['tests_with_patch'] = out.strip()
            rc1, out1 = sh('/venv/bin/python %s' % demo, cwd=wt)
            report['demo_with_patch'] = (rc1, out1.strip()[-300:])
        finally:
            sh('git apply -R %s' % pf, cwd=wt)
    finally:
        if main_patch.strip():
            sh('git apply %s' % mp, cwd=wt)
    ok = '111 passed' in report['tests_with_patch'] and rc1 == 1 and rc0 == 0
    report['confirmed'] = ok
    # run our checks against the worktree with the patch applied (DESPER_REPO), evidence to a scratch directory;
    # --in-repo applies the patch to /repo itself instead and restores it afterwards
    checks = {}
    tiers = ['quick', 'thorough'] if a.tier == 'both' else [a.tier]
    if a.in_repo:
        rc, out = sh('git status --porcelain -- desper', cwd='/repo')
        assert not out.strip(), '/repo is dirty: ' + out
        rc, out = sh('git apply %s' % pf, cwd='/repo')
        assert rc == 0, 'patch does not apply to /repo: ' + out
        env = 'VERIF_EVIDENCE_DIR=/tmp/seed-evidence '
    else:
        if main_patch.strip():
            sh('git apply -R %s' % mp, cwd=wt)
        rc, out = sh('git apply %s' % pf, cwd=wt)
        assert rc == 0, out
        env = 'VERIF_EVIDENCE_DIR=/tmp/seed-evidence DESPER_REPO=%s ' % wt
    try:
        for p in [pid] + [x for x in a.also.split(',') if x]:
            for t in tiers:
                rc, out = sh(env + 'bin/check %s --tier %s' % (p, t), cwd=VERIF)
                lines = [l for l in out.splitlines() if l.startswith(('VIOLATION', 'HARNESS-ERROR', 'counterexample', p + ' '))]
                checks['%s/%s' % (p, t)] = dict(exit=rc, lines=lines[:4])
                if rc == 1:
                    break
    finally:
        if a.in_repo:
            sh('git checkout -- .', cwd='/repo')
        else:
            sh('git apply -R %s' % pf, cwd=wt)
            if main_patch.strip():
                sh('git apply %s' % mp, cwd=wt)
    report['checks'] = checks
    print(json.dumps(report, indent=1))
    if a.keep:
        name = a.name or (pid + ('-alt' if a.alt else ''))
        d = os.path.join(VERIF, 'seeded', name)
        os.makedirs(d, exist_ok=True)
        open(os.path.join(d, 'patch.diff'), 'w').write(patch)
        shutil.copy(demo, os.path.join(d, 'demo.py'))
        meta = json.load(open(meta_f)) if os.path.exists(meta_f) else {}
        meta.update(property=pid, confirmed=dict(tests_with_patch=report['tests_with_patch'],
                                                 demo_with_patch_exit=rc1, demo_without_patch_exit=rc0),
                    how_to_run_demo='copy demo.py into the root of a worktree of /repo (with or without patch.diff applied) and run it with /venv/bin/python',
                    checks=checks,
                    what_was_run='tools/seed_eval.py %s' % ' '.join(sys.argv[1:]))
        json.dump(meta, open(os.path.join(d, 'meta.json'), 'w'), indent=1)
        print('kept in', d)


if __name__ == '__main__':
    main()
