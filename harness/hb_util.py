"""Helpers shared by the event harnesses (C03, C04): control of the listener iteration order.

EventDispatcher keeps the listeners of an event in a set of (weakref(handler), function) tuples.  The
iteration order of that set cannot be requested through desper's API and differs between processes (function
objects hash by address), which would make a counterexample found in a worker fail to reproduce in the replay
interpreter.  Handlers used by the harnesses therefore define __hash__ as a constant (legal Python: the hash of
a weak reference is the hash of its referent), and the constants are *searched at run time* such that, for
every event, the values hash((constant, function)) & 7 of its listeners are distinct and increase in the
requested order.  A listener set that never held more than 4 distinct entries has an 8-slot table; every entry
then sits in its home slot and CPython iterates in the requested order, whatever was added or removed before.
The harnesses verify the order on every dispatch they can (a mismatch is a harness error, never a verdict).

A dispatcher that hashes its weak references by identity (id of the handler) ignores these constants.  `steer`
therefore works black-box on top of them: it builds candidate handler objects, asks a probe (scratch dispatcher,
plain dispatches) whether they are served in the requested order, and retries with fresh objects (other addresses)
until they are.  With referent hashing the first candidates fit; with identity hashing a few dozen tries do.
"""
import itertools

_CACHE = {}
_NCAND = 48


def order_hashes(events, n, order):
    """events: per event a list of (handler index, function it is registered with); order: tuple of all
    handler indices, the requested service order.  Returns one hash constant per handler."""
    key = (tuple(tuple((i, id(f)) for i, f in ev) for ev in events), n, tuple(order))
    if key in _CACHE:
        return _CACHE[key]
    rank = {h: p for p, h in enumerate(order)}
    cands = list(range(1, _NCAND + 1))

    def ok(vals):
        for ev in events:
            members = sorted((rank[i], hash((vals[i], f)) & 7) for i, f in ev if vals[i] is not None)
            lows = [low for _, low in members]
            if any(a >= b for a, b in zip(lows, lows[1:])):
                return False
        return True

    def search(i, vals):
        if i == n:
            return list(vals)
        for v in cands:
            vals[i] = v
            if ok(vals):
                r = search(i + 1, vals)
                if r:
                    return r
        vals[i] = None
        return None

    out = search(0, [None] * n)
    if out is None:
        raise RuntimeError('no hash constants found for listener order %r' % (order,))
    _CACHE[key] = out
    return out


class HarnessBug(BaseException):
    """The harness lost control of something it relies on.  BaseException: must not be mistaken for an exception
    of the code under test by an `except Exception` around it."""


def steer(make, probe, tries=3000):
    """make() -> fresh candidates; probe(candidates) -> bool.  Returns (candidates, number of the try that fitted
    or 0 if none did)."""
    held = []
    cands = None
    for t in range(tries):
        cands = make()
        if probe(cands):
            return cands, t + 1
        held.append(cands)          # keep them alive: the next candidates get other addresses
    return cands, 0
