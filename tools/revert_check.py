#!/usr/bin/env python3
"""For every `fix:` commit of /repo listed in known_findings.json (`fixed: property=<id> <sha> ...`): apply the reverse
of that commit on top of the current HEAD in a scratch worktree and run the property's quick check, which must
report the violation again (exit 1).  A revert that no longer applies cleanly (later fixes touched the same lines) is
reported as such.  usage: revert_check.py [sha...]"""
import json, os, re, subprocess, sys
VERIF = os.path.dirname(os.path.dirname(os.path.abspath(__file__)))
WT = '/tmp/wt-revert'
# earlier fix -> later fix touching the same lines
# (value: the later fixes to revert first, latest first)
STACKED = {'919fe8e': ['2bfd7f7'], 'e014a8e': ['975810f'], 'fc3c546': ['b32f988', '00844b8'], '00844b8': ['b32f988']}


def sh(cmd, cwd=None):
    p = subprocess.run(cmd, shell=True, cwd=cwd, capture_output=True, text=True)
    return p.returncode, p.stdout + p.stderr


def main():
    fixed = json.load(open(os.path.join(VERIF, 'known_findings.json')))['fixed']
    todo = []
    for line in fixed:
        m = re.match(r'fixed: property=(C\d+) ([0-9a-f]{7,}) (.*)', line)
        if m and (not sys.argv[1:] or m.group(2) in sys.argv[1:]):
            todo.append(m.groups())
    sh('git -C /repo worktree remove --force %s' % WT)
    rc, out = sh('git -C /repo worktree add --detach %s HEAD' % WT)
    assert rc == 0, out
    results = []
    try:
        for pid, sha, what in todo:
            rc, out = sh('git show %s -- desper | git apply -R' % sha, cwd=WT)
            if rc != 0 and sha in STACKED:
                # a later fix sits on top of this one in the same lines: revert both, later one first
                sh('git reset -q --hard HEAD; git clean -fdq', cwd=WT)
                rc, out = sh(' && '.join('git show %s -- desper | git apply -R' % c for c in STACKED[sha] + [sha]), cwd=WT)
                what = what + ' (reverted together with the later fix(es) %s stacked on it)' % ', '.join(STACKED[sha])
            if rc != 0:
                sh('git reset -q --hard HEAD; git clean -fdq', cwd=WT)
                results.append(dict(property=pid, commit=sha, outcome='revert does not apply on HEAD (later commits touched the same lines)'))
                print(pid, sha, 'REVERT DOES NOT APPLY', flush=True)
                continue
            rc_t, out_t = sh('/venv/bin/python -m pytest -q -p no:cacheprovider 2>&1 | tail -1', cwd=WT)
            rc, out = sh('VERIF_EVIDENCE_DIR=/tmp/seed-evidence DESPER_REPO=%s bin/check %s --tier quick' % (WT, pid), cwd=VERIF)
            cl = [l for l in out.splitlines() if l.startswith('counterexample')]
            clause = cl[0].split('clause ')[1].split(')')[0] if cl else ''
            results.append(dict(property=pid, commit=sha, tests=out_t.strip()[:20], check_exit=rc, clause=clause, what=what[:120]))
            print(pid, sha, 'tests:', out_t.strip()[:12], '| check exit', rc, clause, flush=True)
            sh('git reset -q --hard HEAD; git clean -fdq', cwd=WT)
    finally:
        sh('git -C /repo worktree remove --force %s' % WT)
    path = os.path.join(VERIF, 'reverts.json')
    old = {r['commit']: r for r in (json.load(open(path)) if os.path.exists(path) else [])}
    for r in results:
        old[r['commit']] = r
    json.dump(list(old.values()), open(path, 'w'), indent=1)


if __name__ == '__main__':
    main()
