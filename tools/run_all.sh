#!/bin/sh
# tools/run_all.sh quick|thorough [IDs...]  -- run the checks one after the other, print a summary line each
tier=${1:-quick}; shift
cd "$(dirname "$0")/.."
ids="$@"; [ -z "$ids" ] && ids=$(cat tools/claimed.txt)
for p in $ids; do
  start=$(date +%s)
  out=$(bin/check $p --tier $tier 2>&1); rc=$?
  end=$(date +%s)
  echo "$p $tier exit=$rc wall=$((end-start))s :: $(echo "$out" | grep -E "^$p $tier" | head -1)"
  echo "$out" | grep -E "^(VIOLATION|HARNESS-ERROR|NOTE)" | head -5
done
