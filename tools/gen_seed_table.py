#!/usr/bin/env python3
"""Write seeded/SUMMARY.md (full table) and print the compact table for DESIGN.md from seeded/*/meta.json."""
import glob, json, os
VERIF = os.path.dirname(os.path.dirname(os.path.abspath(__file__)))
rows = []
for d in sorted(glob.glob(os.path.join(VERIF, 'seeded', '*'))):
    if not os.path.isdir(d):
        continue
    m = json.load(open(os.path.join(d, 'meta.json')))
    name = os.path.basename(d)
    res = m.get('recheck')
    if not res:
        res = []
        for k, v in m.get('checks', {}).items():
            if v.get('exit') is None:
                continue
            cl = [l for l in v['lines'] if l.startswith('counterexample')]
            clause = cl[0].split('clause ')[1].split(')')[0] if cl else ''
            if k.endswith('/quick') or v['exit'] == 1:
                res.append('%s exit %d %s' % (k.split('/')[0] + ('' if k.endswith('/quick') else '(thorough)'), v['exit'], clause))
    caught = [r for r in res if ' exit 1' in r]
    verdict = '; '.join('%s `%s`' % (r.split()[0], r.split(' exit 1 ')[1].strip() or '?') for r in caught)
    if not caught:
        verdict = 'not caught (' + '; '.join(r.split(' exit ')[0] + ' exit ' + r.split(' exit ')[1].split()[0] for r in res) + ')'
    rows.append((name, m.get('property'), m.get('summary', '').replace('|', '/').replace('\n', ' '),
                 m.get('needs', '').replace('|', '/').replace('\n', ' '), verdict, m.get('note', '')))
with open(os.path.join(VERIF, 'seeded', 'SUMMARY.md'), 'w') as f:
    f.write('# Seeded changes (all pass the 111 tests; each confirmed with its demo)\n\n')
    f.write('| seed | breaks | change | needs | quick tier verdict | note |\n|---|---|---|---|---|---|\n')
    for r in rows:
        f.write('| %s | %s | %s | %s | %s | %s |\n' % r)
n = len(rows)
own = sum(1 for r in rows if (r[1] + ' `') in r[4])
other = sum(1 for r in rows if 'not caught' not in r[4] and (r[1] + ' `') not in r[4])
print('%d seeded changes kept; %d caught by the quick tier of the property they were written against, %d only by another '
      "property's quick check, %d not caught (all listed with the reason)." % (n, own, other, n - own - other))
print()
print('| seed | written against | caught by: check `clause` |')
print('|---|---|---|')
for r in rows:
    extra = (' — ' + r[5]) if ('not caught' in r[4] and r[5]) else ''
    print('| %s | %s | %s%s |' % (r[0], r[1], r[4], extra))
