#!/usr/bin/env python3
"""Regenerate /verif/MANIFEST.json from the harness modules that exist (harness/cNN.py with TIERS)."""
import importlib, json, os, sys
VERIF = os.path.dirname(os.path.dirname(os.path.abspath(__file__)))
sys.path.insert(0, VERIF); sys.path.insert(0, os.environ.get('DESPER_REPO', '/repo'))
sys.dont_write_bytecode = True

TECH = {
    'default': 'bounded symbolic execution of the real code (own z3 path explorer symx), exhaustive within bounds',
}
CLAIMED = set(open(os.path.join(VERIF, 'tools', 'claimed.txt')).read().split())
props = [json.loads(l) for l in open(os.path.join(VERIF, 'properties.jsonl'))]
checks, na = [], []
for p in props:
    pid = p['id']
    path = os.path.join(VERIF, 'harness', pid.lower() + '.py')
    if not os.path.exists(path) or pid not in CLAIMED:
        na.append(dict(property_id=pid, reason='check not built yet in this tree (design in DESIGN.md section 4); not claimed'))
        continue
    mod = importlib.import_module('harness.' + pid.lower())
    if getattr(mod, 'NOT_APPLICABLE', None):
        na.append(dict(property_id=pid, reason=mod.NOT_APPLICABLE))
        continue
    checks.append(dict(
        property_id=pid,
        quick_cmd='bin/check %s --tier quick' % pid,
        thorough_cmd='bin/check %s --tier thorough' % pid,
        evidence_file='/verif/evidence/%s.json' % pid,
        replay_cmd_template='bin/check %s --replay {path}' % pid,
        engine=getattr(mod, 'ENGINE', 'symx'),
        level_claimed=dict(category='other', text=getattr(mod, 'LEVEL_TEXT', None) or (
            'Bounded symbolic execution of the real desper code: every branch on a symbolic input is decided by '
            'z3, all feasible paths inside the stated bounds are explored (exhaustive:true in the evidence) and '
            'none violates the oracle; counterexamples are replayed concretely before being reported. '
            'Nothing is claimed outside the bounds.'), design_ref='DESIGN.md section 4, ' + pid),
        level_note=getattr(mod, 'LEVEL_NOTE', None) or (
            'Trusted: z3 5.1.0, the symx proxies/explorer, CPython executing the real code, the reference model '
            'in harness/%s.py. Assumptions and bounds are listed in the evidence file.' % pid.lower()),
        technique=getattr(mod, 'TECHNIQUE', TECH['default']),
    ))
man = dict(
    version=1,
    setup_cmd='bin/bootstrap',
    hooks=dict(guard='BALL_MAN_DESPER_VERIF',
               enable='no source hooks are needed; checks export BALL_MAN_DESPER_VERIF=1 and import desper from /repo',
               baseline_off_cmd='cd /repo && env -u BALL_MAN_DESPER_VERIF /venv/bin/python -m pytest -ra -q -p no:cacheprovider --timeout=900 --continue-on-collection-errors',
               source_commits=[], add_only=True),
    engines=[
        dict(name='symx', path='/verif/symx', serves_properties=[c['property_id'] for c in checks],
             kind_free_text='own symbolic path explorer: proxy objects build z3 terms while the real desper code runs; '
                            'z3 decides every branch; DFS over the decision tree sharded over 16 processes; '
                            'concrete replay of every counterexample'),
        dict(name='crosshair', path='/verif/chk', serves_properties=['C15'],
             kind_free_text='CrossHair 0.0.110 via its Python API for the all-strings part of C15'),
    ],
    checks=checks,
    not_applicable=na,
    notes='See DESIGN.md. Exit codes of bin/check: 0 held, 1 replayed violation, 3 inconclusive/harness error.',
)
with open(os.path.join(VERIF, 'MANIFEST.json'), 'w') as f:
    json.dump(man, f, indent=1)
print('claimed', [c['property_id'] for c in checks], 'n/a', len(na))
