"""Replace the `math` functions used by desper.math with symbolic-aware versions.

Every global of desper.math that *is* the math module (whatever its name) is replaced by a shim object
whose sqrt/cos/sin/atan2 dispatch on proxies; concrete numbers go to the real math functions."""
import contextlib
import math as _real_math

from . import proxies as px


class MathShim:
    def __init__(self, sp):
        self._sp = sp

    def __getattr__(self, name):
        return getattr(_real_math, name)

    def sqrt(self, a):
        if isinstance(a, (px.SReal, px.SInt)):
            return px.sym_sqrt(self._sp, a)
        return _real_math.sqrt(a)

    def cos(self, a):
        if isinstance(a, px.SAngle):
            return px.sym_cos(a)
        if isinstance(a, (px.SReal, px.SInt)):
            raise px.ProxyMisuse('cos of a symbolic real: use SAngle')
        return _real_math.cos(a)

    def sin(self, a):
        if isinstance(a, px.SAngle):
            return px.sym_sin(a)
        if isinstance(a, (px.SReal, px.SInt)):
            raise px.ProxyMisuse('sin of a symbolic real: use SAngle')
        return _real_math.sin(a)

    def isclose(self, a, b, *, rel_tol=1e-09, abs_tol=0.0):
        sym = (px.SReal, px.SInt)
        if not isinstance(a, sym) and not isinstance(b, sym):
            return _real_math.isclose(a, b, rel_tol=rel_tol, abs_tol=abs_tol)
        # documented definition: abs(a-b) <= max(rel_tol * max(abs(a), abs(b)), abs_tol); absolute values are taken by
        # branching (solver decisions) rather than If-terms, which keeps the queries inside nlsat's comfort zone
        def _abs(v):
            if isinstance(v, sym):
                return -v if v < 0 else v
            return abs(v)
        diff = _abs(a - b)
        aa, ab = _abs(a), _abs(b)
        big = aa if aa >= ab else ab
        bound = big * rel_tol
        if not bound >= abs_tol:
            bound = abs_tol
        return bool(diff <= bound)

    def fabs(self, a):
        if isinstance(a, (px.SReal, px.SInt)):
            return abs(a)
        return _real_math.fabs(a)

    def atan2(self, y, x):
        if isinstance(y, (px.SReal, px.SInt)) or isinstance(x, (px.SReal, px.SInt)):
            if not isinstance(y, px.SReal):
                y = px.SReal(self._sp, *px._real_pair(y))
            if not isinstance(x, px.SReal):
                x = px.SReal(self._sp, *px._real_pair(x))
            return px.sym_atan2(self._sp, y, x)
        return _real_math.atan2(y, x)


@contextlib.contextmanager
def installed(sp, module):
    """Within the block, `module`'s references to the math module go through the shim."""
    saved = {}
    shim = MathShim(sp)
    for k, v in list(vars(module).items()):
        if v is _real_math:
            saved[k] = v
            setattr(module, k, shim)
    if not saved:
        raise RuntimeError('%s does not reference the math module' % module.__name__)
    try:
        yield shim
    finally:
        for k, v in saved.items():
            setattr(module, k, v)
