"""Engine self-test: every proxy operator is compared with exact Python arithmetic on pinned values.

For each operator and each pair of pinned operands a symbolic operand is created (`sp.real/int` constrained to the
pinned value), the operator is applied to the proxy, and z3 must prove the result equal to what Python's
Fraction / int arithmetic gives (validity query through `sp.check`).  Comparisons must decide the same truth value.
Run at the start of every check (about 0.3 s); a mismatch is a harness error (exit 3), never a verdict."""
from __future__ import annotations

import operator
from fractions import Fraction

from .space import Space, Violation
from . import proxies as px

REALS = [Fraction(0), Fraction(1), Fraction(-1), Fraction(7, 2), Fraction(-5, 3), Fraction(360), Fraction(1, 1024)]
INTS = [0, 1, -1, 5, -7, 360]


class SelfTestError(Exception):
    pass


def _pin_real(sp, v):
    x = sp.real('x')
    sp.assume(x == v)
    return x


def _pin_int(sp, v):
    x = sp.int('i')
    sp.assume(x == v)
    return x


def run():
    n = 0
    sp = Space()
    sp.begin()
    try:
        # reals: + - * / ** abs neg comparisons % constant, against Fractions and mixed python numbers
        for a in REALS:
            for b in REALS:
                xa, xb = _pin_real(sp, a), _pin_real(sp, b)
                for op in (operator.add, operator.sub, operator.mul):
                    variants = [(xa, xb), (xa, b), (a, xb), (int(a) if a.denominator == 1 else a, xb)]
                    if Fraction(float(b)) == b:
                        variants.append((xa, float(b)))
                    for l, r in variants:
                        sp.check(op(l, r) == op(a, b), 'selftest', '%s %s %s' % (a, op.__name__, b))
                        n += 1
                if b != 0:
                    for l, r in ((xa, xb), (xa, b), (a, xb)):
                        sp.check(l / r == a / b, 'selftest', '%s / %s' % (a, b))
                        n += 1
                for op in (operator.lt, operator.le, operator.gt, operator.ge, operator.eq, operator.ne):
                    got = bool(op(xa, xb))
                    if got != op(a, b):
                        raise SelfTestError('%s %s %s decided %s' % (a, op.__name__, b, got))
                    n += 1
            xa = _pin_real(sp, a)
            sp.check(abs(xa) == abs(a), 'selftest', 'abs %s' % a)
            sp.check(-xa == -a, 'selftest', 'neg %s' % a)
            sp.check(xa ** 3 == a ** 3, 'selftest', '%s ** 3' % a)
            sp.check(xa % 360. == a % 360, 'selftest', '%s %% 360' % a)
            if a >= 0:
                r = px.sym_sqrt(sp, xa * xa)
                sp.check(r == abs(a), 'selftest', 'sqrt(%s^2)' % a)
            n += 5
            # infinities: every comparison with +-inf is the constant it is for floats
            for inf in (float('inf'), float('-inf')):
                for op in (operator.lt, operator.le, operator.gt, operator.ge, operator.eq, operator.ne):
                    if bool(op(xa, inf)) != op(a, inf) or bool(op(inf, xa)) != op(inf, a):
                        raise SelfTestError('%s %s %s decided wrongly' % (a, op.__name__, inf))
                    n += 2
                if min(xa, inf) is not (xa if inf > 0 else inf) or max(inf, xa) is not (inf if inf > 0 else xa):
                    raise SelfTestError('min/max with %s' % inf)
                n += 2
        # ints
        for a in INTS:
            for b in INTS:
                ia, ib = _pin_int(sp, a), _pin_int(sp, b)
                for op in (operator.add, operator.sub, operator.mul):
                    for l, r in ((ia, ib), (ia, b), (a, ib)):
                        sp.check(op(l, r) == op(a, b), 'selftest', '%s %s %s (int)' % (a, op.__name__, b))
                        n += 1
                for op in (operator.lt, operator.le, operator.gt, operator.ge, operator.eq, operator.ne):
                    if bool(op(ia, ib)) != op(a, b):
                        raise SelfTestError('%s %s %s (int) decided wrongly' % (a, op.__name__, b))
                    n += 1
                # int meets real
                sp.check(ia + _pin_real(sp, Fraction(b, 2)) == a + Fraction(b, 2), 'selftest', 'int + real')
                n += 1
            ia = _pin_int(sp, a)
            sp.check(ia // 7 == a // 7, 'selftest', '%s // 7' % a)
            sp.check(ia % 7 == a % 7, 'selftest', '%s %% 7' % a)
            sp.check(abs(ia) == abs(a), 'selftest', 'abs int')
            n += 3
        # booleans
        f = sp.flag('f')
        sp.assume(f)
        if not (f & True) or (~f) or not (f | False):
            raise SelfTestError('SBool algebra')
        n += 3
    except Violation as v:
        raise SelfTestError('proxy operator disagrees with python: %s' % v.detail)
    finally:
        sp.end()
    return n, sp.queries


if __name__ == '__main__':
    print('selftest ok: %d comparisons, %d solver queries' % run())
