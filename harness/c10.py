"""C10 — handlers are held weakly and are never called after they are gone.

One path = one *program*: k handlers of one event on a plain EventDispatcher or on a World (components of
distinct entities, or handlers added directly), per handler a configuration (who holds it strongly and by
which route it disappears), a kill matrix kill[i][j] ("the callback of i makes j disappear"), and drops
between the operations.  The program is executed natively (real CPython reference counting, no tracer, the
harness keeps no stray references) as:   build -> drops -> dispatch (probe) -> dispatch with the kill
matrix armed -> del + gc.collect() -> dispatch again.

Iteration order of the listener set cannot be chosen from outside.  Every path therefore runs its program
once for each of the k! assignments of the logical handlers to creation slots; slot hashes are fixed, so
the set order over slots is fixed and the k! runs exhibit all k! listener orders.  The harness *verifies*
this with the probe dispatch (all orders of the live listeners observed, else harness error), which also
makes every verdict independent of the process (the replay runs in another interpreter).
"""
import gc
import itertools
import weakref

from desper.events import EventDispatcher, event_handler
from desper.logic.world import World

from harness.hb_util import HarnessBug

PROPERTY = 'C10'


@event_handler('ev')
class K:
    """The handler class.  __hash__ is a per-slot constant so that listener order is reproducible."""

    def __init__(self, slot, idx):
        self.slot, self.idx = slot, idx

    def __hash__(self):
        return SLOT_HASH[self.slot]

    def ev(self, ctx, armed):
        # `self` is whatever receiver the dispatcher passes
        if self is None:
            ctx.rec.append(None)
            return
        if ctx.status[self.idx] == 'gone':
            # the program had given up every strong reference before this call: only the dispatcher can have
            # kept the object alive (the harness itself refers to handlers through ctx.strong and the World only)
            ctx.late.append(self.idx)
        ctx.rec.append(self.idx)
        if armed:
            for j in (ctx.kill[self.idx] if self.idx < len(ctx.kill) else ()):     # replacements kill nobody
                ctx.vanish(j, True)


def _slot_hashes(n=4):
    """constants whose (weakref, K.ev) tuples land in distinct home slots of an 8-entry set table"""
    out, seen, v = [], set(), 1
    while len(out) < n:
        low = hash((v, K.ev)) & 7
        if low not in seen:
            seen.add(low)
            out.append(v)
        v += 1
    return out


SLOT_HASH = _slot_hashes()


# Handler class flavours: classes that declare __slots__ and are still weakly referenceable are handlers like any
# other (the dispatcher must hold them weakly too)
@event_handler('ev')
class KSlots:
    """__slots__ with '__weakref__': no __dict__, weak references allowed"""
    __slots__ = ('slot', 'idx', '__weakref__')

    __init__ = K.__init__
    __hash__ = K.__hash__
    ev = K.ev


class KEmptySlots(K):
    """`__slots__ = ()` in a subclass of a plain class: __dict__ and __weakref__ are inherited"""
    __slots__ = ()


KLASSES = [K, KSlots, KEmptySlots]

# configurations: (attachment, program keeps a strong reference, route by which it disappears)
DISPATCHER_CFG = [
    ('direct', True, 'drop'),               # last reference dropped
    ('direct', True, 'remove_handler'),     # stays alive, explicitly removed
    ('direct', False, 'drop'),              # registered from a temporary: gone at once
    ('direct', True, 'clear+drop'),         # the killer calls dispatcher.clear(), then drops the last reference
    ('direct', True, 'drop+replace'),       # last reference dropped, a fresh handler of the class registered at once
]
N_CLASSIC = {False: 4, True: 8}             # configurations used when an entry does not say which (cfgs=None)
WORLD_CFG = [
    ('component', False, 'remove_component'),
    ('component', False, 'delete_entity'),
    ('component', True, 'remove_component'),
    ('component', True, 'delete_entity'),
    ('direct', True, 'drop'),
    ('direct', True, 'remove_handler'),
    ('direct', True, 'clear+drop'),         # free-standing handler: world.clear(), then the last reference goes
    ('component', False, 'clear'),          # world.clear() deletes the entity that holds the only reference
    ('component', False, 'remove_component+replace'),   # component removed, a fresh one of the class added at once
    ('direct', True, 'drop+replace'),
]


class Ctx:
    """The program's own state: the only strong references to handlers live in `strong` and in the World."""

    def __init__(self, world_mode, cfg, kill, cls=K):
        self.cls = cls
        self.d = World() if world_mode else EventDispatcher()
        self.world_mode = world_mode
        self.cfg = cfg
        self.kill = kill            # logical i -> tuple of logical victims
        self.strong = {}
        self.ents = {}
        self.refs = {}
        self.cleared = False        # clear() was called since the flag was last reset
        self.replaced = False       # a victim was replaced by a fresh handler of its class during a dispatch
        self.reused = False         # ... and the fresh handler got the victim's address
        self.rec = []
        self.late = []              # handlers called although nothing but the dispatcher referred to them any more
        # model: 'live' must be reached, 'open' alive but detached (left open), 'removed' alive and must not be
        # reached, 'gone' no strong reference left anywhere
        self.status = {}

    def build(self, perm):
        for slot, i in enumerate(perm):
            att, keep, _ = self.cfg[i]
            h = self.cls(slot, i)
            self.refs[i] = weakref.ref(h)
            if att == 'component':
                self.ents[i] = self.d.create_entity(h)
            else:
                self.d.add_handler(h)
            if keep:
                self.strong[i] = h
            self.status[i] = 'live' if (keep or att == 'component') else 'gone'
            del h

    def vanish(self, j, in_callback=False):
        if self.status[j] != 'live':
            return
        att, keep, route = self.cfg[j]
        if route.endswith('+replace'):
            if in_callback:
                return self.replace(j, route)
            route = route[:-len('+replace')]        # between operations: the plain route
        if route == 'drop':
            self.strong.pop(j, None)
            self.status[j] = 'gone'
        elif route == 'remove_handler':
            self.d.remove_handler(self.strong[j])
            self.status[j] = 'removed'
        elif route == 'remove_component':
            self.d.remove_component(self.ents[j], self.cls)
            self.status[j] = 'open' if keep else 'gone'
        elif route == 'delete_entity':
            self.d.delete_entity(self.ents[j], immediate=True)
            self.status[j] = 'open' if keep else 'gone'
        elif route in ('clear+drop', 'clear'):
            self.clear_all()
            if route == 'clear+drop':
                self.strong.pop(j, None)
                self.status[j] = 'gone'

    def replace(self, j, route):
        """the victim's last reference goes and a fresh handler of the same class is created and registered at once
        (nothing allocated in between, so CPython is likely to hand out the victim's address again)"""
        new_idx = len(self.kill) + j
        if route == 'drop+replace':
            old_id = id(self.strong[j])
            del self.strong[j]
            self.strong[new_idx] = self.cls(3, new_idx)
            self.d.add_handler(self.strong[new_idx])
            self.reused = self.reused or id(self.strong[new_idx]) == old_id
            self.refs[new_idx] = weakref.ref(self.strong[new_idx])
        else:
            e = self.ents[j]
            old_id = id(self.d.get_component(e, self.cls))
            self.d.remove_component(e, self.cls)
            self.d.add_component(e, self.cls(3, new_idx))
            self.reused = self.reused or id(self.d.get_component(e, self.cls)) == old_id
            self.refs[new_idx] = weakref.ref(self.d.get_component(e, self.cls))
            self.ents[new_idx] = e
        self.status[j] = 'gone'
        self.status[new_idx] = 'live'
        self.replaced = True

    def clear_all(self):
        """dispatcher.clear() / world.clear(): nobody is registered afterwards; a World also deletes every entity, so
        components the program does not hold are gone, everything the program holds is alive and unregistered"""
        self.d.clear()
        self.cleared = True
        for i, st in self.status.items():
            if st in ('live', 'open'):
                self.status[i] = 'removed' if i in self.strong else 'gone'


def run_program(sp, world_mode, cfg, kill, pre, mid, perm, what, defer=0, cls=K):
    """returns the listener order seen by the probe dispatch (tuple of logical ids)"""
    k = len(perm)
    ctx = Ctx(world_mode, cfg, kill, cls)
    ctx.build(perm)
    for i in range(k):
        if pre[i]:
            ctx.vanish(i)
    check_refs(sp, ctx, what, 'after the drops before the first dispatch')
    # --- probe dispatch: nothing armed
    before = dict(ctx.status)
    dispatch(sp, ctx, False, what, 'first dispatch')
    judge(sp, ctx, before, set(), what, 'first dispatch')
    order = tuple(ctx.rec)
    # --- armed dispatch: callbacks make other handlers disappear
    before = dict(ctx.status)
    ctx.cleared = False
    dispatch(sp, ctx, True, what, 'dispatch with disappearing handlers', deferred=defer >= 1)
    victims = set()
    for i in ctx.rec:
        if i is not None:
            victims.update(kill[i])
    if ctx.replaced:
        sp.cover('replaced-during-dispatch')
        if ctx.reused:
            sp.cover('address-reused')
    if ctx.cleared:
        victims = set(range(k))     # clear() during the dispatch unregistered everybody
        sp.cover('cleared-during-dispatch')
    judge(sp, ctx, before, victims, what, 'dispatch with disappearing handlers')
    if any(before[j] == 'live' and ctx.status[j] == 'gone' for j in range(k)):
        sp.cover('died-during-dispatch')
        if cls is not K:
            sp.cover('slotted-handler-died')
        if defer:
            sp.cover('died-during-deferred-release')
    if any(before[j] == 'live' and ctx.status[j] in ('open', 'removed') for j in range(k)):
        sp.cover('detached-alive-during-dispatch')
    check_refs(sp, ctx, what, 'after the dispatch with disappearing handlers')
    for i in range(k):
        if mid[i]:
            ctx.vanish(i)
    check_refs(sp, ctx, what, 'after the drops between the dispatches')
    # --- later dispatches work normally
    before = dict(ctx.status)
    dispatch(sp, ctx, False, what, 'last dispatch', deferred=defer >= 2)
    judge(sp, ctx, before, set(), what, 'last dispatch')
    if any(s == 'live' for s in before.values()) and any(s == 'gone' for s in before.values()):
        sp.cover('survivors-and-dead')
    if any(i >= k and s == 'live' for i, s in before.items()):
        sp.cover('replacement-served-later')
    return order


def dispatch(sp, ctx, armed, what, when, deferred=False):
    """direct: d.dispatch(...).  deferred: the event is dispatched while dispatching is disabled and delivered by
    the release that `dispatch_enabled = True` performs (handlers have no on_add/on_remove, so on a World the
    queue holds nothing else)."""
    del ctx.rec[:]
    del ctx.late[:]
    try:
        if deferred:
            ctx.d.dispatch_enabled = False
            ctx.d.dispatch('ev', ctx, armed)
            if ctx.rec:
                sp.fail('runs-while-disabled', '%s: %s: callbacks %r ran while dispatching was disabled'
                        % (what, when, list(ctx.rec)))
            ctx.d.dispatch_enabled = True
        else:
            ctx.d.dispatch('ev', ctx, armed)
    except Exception as ex:     # noqa
        msg = repr(ex)
        del ex
        sp.fail('dispatch-raises', '%s: %s raised %s' % (what, when, msg))


def judge(sp, ctx, before, victims, what, when):
    rec = list(ctx.rec)
    sp.check(None not in rec, 'none-receiver',
             '%s: %s invoked a callback with receiver None (receivers in call order: %r)' % (what, when, rec))
    sp.check(not ctx.late, 'called-after-gone',
             '%s: %s called handler(s) %r after an earlier callback of the same dispatch had dropped their last '
             'strong reference (the dispatcher kept them alive); receivers in call order: %r'
             % (what, when, list(ctx.late), rec))
    for i in sorted(before):
        n = rec.count(i)
        if before[i] == 'live' and ctx.status[i] == 'gone' and n == 0:
            sp.cover('died-before-its-turn')
        st = before[i]
        if st in ('gone', 'removed'):
            sp.check(n == 0, 'called-after-gone', '%s: %s reached handler %d, which was %s before it'
                     % (what, when, i, 'dropped' if st == 'gone' else 'removed with remove_handler'))
        elif st == 'live' and i not in victims:
            sp.check(n == 1, 'survivor-missed', '%s: %s reached the registered handler %d %d times'
                     % (what, when, i, n))
        else:       # detached earlier but alive (left open), or made to disappear during this very dispatch
            sp.check(n <= 1, 'duplicate', '%s: %s reached handler %d %d times' % (what, when, i, n))


def check_refs(sp, ctx, what, when):
    """weak references to dropped handlers are dead after del + gc.collect(); the program's are alive"""
    for i, st in sorted(ctx.status.items()):
        if st == 'gone':
            if ctx.refs[i]() is not None:
                gc.collect()
            sp.check(ctx.refs[i]() is None, 'kept-alive',
                     '%s: handler %d is still alive %s although nothing but the dispatcher refers to it'
                     % (what, i, when))
        else:
            assert ctx.refs[i]() is not None, 'harness lost handler %d (%s) %s' % (i, st, when)


# ------------------------------------------------------------------------------------------ deferred relays
@event_handler('ev', 'on_add', 'on_remove')
class R:
    """A handler component that defines on_add / on_remove: while dispatching is disabled the World defers these
    calls (relays), and a pending on_remove relay is then the only thing that still refers to a removed component."""

    def __init__(self, log, idx):
        self.log, self.idx = log, idx

    def ev(self, log, tag):
        log.append(('ev', None if self is None else self.idx, tag))

    def on_add(self, entity, world):
        self.log.append(('on_add', self.idx, entity))

    def on_remove(self, entity, world):
        self.log.append(('on_remove', self.idx, entity))


ROUTES = ['stays', 'remove_component', 'delete_entity(immediate)', 'delete_entity + process()']


def h_relay(sp, k=2):
    """World only.  k handler components (with on_add/on_remove) of distinct entities; while dispatching is disabled
    they are removed by a route of their own with - unless the program keeps a reference - the World holding the
    only strong reference; ordinary events are queued around the removals; then dispatching is enabled."""
    log = []
    w = World()
    strong, refs, ents = {}, {}, {}
    late = [bool(sp.flag('created-while-disabled[r%d]' % i)) for i in range(k)]
    keep = [bool(sp.flag('program-keeps[r%d]' % i)) for i in range(k)]
    route = [sp.pick(ROUTES, 'route[r%d]' % i) for i in range(k)]
    ev_before = bool(sp.flag('event-queued-before-the-removals'))
    ev_after = bool(sp.flag('event-queued-after-the-removals'))

    def create(i):
        ents[i] = w.create_entity(R(log, i))
        refs[i] = weakref.ref(w.get_component(ents[i], R))
        if keep[i]:
            strong[i] = w.get_component(ents[i], R)

    for i in range(k):
        if not late[i]:
            create(i)
    w.dispatch_enabled = False
    sp.note('world.dispatch_enabled = False')
    del log[:]
    for i in range(k):
        if late[i]:
            create(i)
            sp.cover('created-while-disabled')
    tags = []
    if ev_before:
        w.dispatch('ev', log, 'before')
        tags.append('before')
    removed = set()
    for i in range(k):
        sp.note('r%d (%s%s): %s' % (i, 'kept by the program' if keep[i] else 'held by the World only',
                                  ', created while disabled' if late[i] else '', route[i]))
        if route[i] == 'remove_component':
            w.remove_component(ents[i], R)
        elif route[i] == 'delete_entity(immediate)':
            w.delete_entity(ents[i], immediate=True)
        elif route[i] == 'delete_entity + process()':
            w.delete_entity(ents[i])
            w.process()
        else:
            continue
        removed.add(i)
        if not keep[i]:
            sp.cover('removed-while-disabled-world-only')
    if ev_after:
        w.dispatch('ev', log, 'after')
        tags.append('after')
    if log:
        sp.fail('runs-while-disabled', 'callbacks ran while dispatching was disabled: %r' % (log,))
    del log[:]
    sp.note('world.dispatch_enabled = True')
    try:
        w.dispatch_enabled = True
    except Exception as ex:     # noqa
        msg = repr(ex)
        del ex
        sp.fail('enable-raises', 'world.dispatch_enabled = True raised %s; delivered so far: %r' % (msg, log))
    sp.check(all(x[1] is not None for x in log), 'none-receiver', 'a callback ran with receiver None: %r' % (log,))
    for i in range(k):
        n = sum(1 for x in log if x[0] == 'on_remove' and x[1] == i)
        if i in removed:
            sp.check(n == 1, 'relay-lost', 'r%d was removed while dispatching was disabled; its on_remove was '
                     'delivered %d times when dispatching was enabled (log %r)' % (i, n, log))
            sp.check(('on_remove', i, ents[i]) in log, 'relay-lost', 'on_remove of r%d with wrong entity' % i)
            sp.cover('on_remove-relayed')
        else:
            sp.check(n == 0, 'spurious-call', 'r%d is still attached but got on_remove' % i)
            for tag in tags:
                m = sum(1 for x in log if x == ('ev', i, tag))
                sp.check(m == 1, 'survivor-missed', 'the event queued %s the removals reached the attached handler r%d '
                         '%d times (log %r)' % (tag, i, m, log))
                sp.cover('queued-event-delivered')
    # nothing but the dispatcher / a delivered relay refers to the removed, not kept handlers any more
    for i in range(k):
        if i in removed and not keep[i]:
            if refs[i]() is not None:
                gc.collect()
            sp.check(refs[i]() is None, 'kept-alive', 'r%d is still alive after its on_remove relay was delivered' % i)
            sp.cover('dead-after-relay')
        else:
            assert refs[i]() is not None, 'harness lost r%d' % i
    # later dispatches work normally
    del log[:]
    try:
        w.dispatch('ev', log, 'later')
    except Exception as ex:     # noqa
        msg = repr(ex)
        del ex
        sp.fail('dispatch-raises', 'a later dispatch raised %s' % msg)
    sp.check(all(x[1] is not None for x in log), 'none-receiver', 'a callback ran with receiver None: %r' % (log,))
    for i in range(k):
        m = sum(1 for x in log if x == ('ev', i, 'later'))
        if i not in removed:
            sp.check(m == 1, 'survivor-missed', 'a later dispatch reached the attached handler r%d %d times' % (i, m))
        elif not keep[i]:
            sp.check(m == 0, 'called-after-gone', 'a later dispatch reached the dead handler r%d' % i)
    sp.done()


# ------------------------------------------------------------------------------------------ shared / moved handlers
def h_shared(sp):
    """One handler object owned by two dispatchers (registered with A and B), or moved (added to A, removed from A,
    added to B); optionally a second instance of the same class with its own instance-level __events__.  One of them
    loses its last reference; right after that a fresh handler of the class is created (CPython may hand out the
    same address) and registered with both.  The class is created on the path."""
    log = []

    def ev1(self, log):
        log.append(('ev1', None if self is None else self.idx))

    def on2(self, log):
        log.append(('ev2', None if self is None else self.idx))

    H = event_handler('ev1')(type('H', (), {'ev1': ev1, 'on2': on2,
                                             '__init__': lambda self, idx: setattr(self, 'idx', idx)}))
    worlds = bool(sp.flag('dispatchers-are-worlds'))
    A, B = (World(), World()) if worlds else (EventDispatcher(), EventDispatcher())
    disp = {'A': A, 'B': B}
    scenario = sp.pick(['shared', 'moved', 'A only'], 'scenario')
    second = bool(sp.flag('second-instance'))
    own = bool(second and sp.flag('second-has-own-__events__'))
    strong = {0: H(0)}
    maps = {0: {'ev1'}}
    on = {'A': set(), 'B': set()}       # model: who is registered where
    A.add_handler(strong[0])
    on['A'].add(0)
    if scenario == 'shared':
        B.add_handler(strong[0])
        on['B'].add(0)
        sp.cover('shared-by-two-dispatchers')
    elif scenario == 'moved':
        A.remove_handler(strong[0])
        on['A'].discard(0)
        B.add_handler(strong[0])
        on['B'].add(0)
        sp.cover('moved-between-dispatchers')
    if second:
        strong[1] = H(1)
        maps[1] = {'ev1'}
        if own:
            strong[1].__events__ = {'ev2': 'on2'}
            maps[1] = {'ev2'}
            sp.cover('per-instance-events')
        for tag in ('A', 'B'):
            disp[tag].add_handler(strong[1])
            on[tag].add(1)
    sp.note('%s, scenario %s%s' % ('Worlds' if worlds else 'EventDispatchers', scenario,
                                  ', second instance%s on A and B' % (' with own __events__' if own else '')
                                  if second else ''))

    def round_(when):
        for tag in ('A', 'B'):
            for ev in ('ev1', 'ev2'):
                del log[:]
                try:
                    disp[tag].dispatch(ev, log)
                except Exception as ex:     # noqa
                    msg = repr(ex)
                    del ex
                    sp.fail('dispatch-raises', '%s: %s.dispatch(%r) raised %s' % (when, tag, ev, msg))
                sp.check(all(x[1] is not None for x in log), 'none-receiver', '%s: %s.dispatch(%r) called a '
                         'callback with receiver None' % (when, tag, ev))
                for i in sorted(maps):
                    n = sum(1 for x in log if x == (ev, i))
                    want = 1 if (i in on[tag] and ev in maps[i] and i in strong) else 0
                    sp.check(n == want, 'survivor-missed' if n < want else 'called-after-gone',
                             '%s: %s.dispatch(%r) reached handler %d %d times, expected %d (registered on %s: %r)'
                             % (when, tag, ev, i, n, want, tag, sorted(on[tag] & set(strong))))
            for i in sorted(strong):
                got = disp[tag].is_handler(strong[i])
                sp.check(got is (i in on[tag]), 'stale-registration', '%s: %s.is_handler(handler %d) is %r'
                         % (when, tag, i, got))

    round_('before the drop')
    victim = sp.pick(sorted(strong), 'dropped')
    if victim == 1:
        sp.cover('second-instance-dropped')
    ref = weakref.ref(strong[victim])
    old_id = id(strong[victim])
    del strong[victim]
    # nothing allocated in between: CPython hands the freed block out again, normally at once; a few more
    # allocations are tried (and kept until then) so that the reuse does not depend on the allocator's mood
    fresh, spare = H(9), []
    while id(fresh) != old_id and len(spare) < 64:
        spare.append(fresh)
        fresh = H(9)
    del spare
    reused = id(fresh) == old_id
    sp.note('handler %d dropped; fresh handler created%s' % (victim, ' at the same address' if reused else ''))
    if reused:
        sp.cover('address-reused')
    strong[9], maps[9] = fresh, {'ev1'}
    del fresh
    if ref() is not None:
        gc.collect()
    sp.check(ref() is None, 'kept-alive', 'handler %d is still alive although only dispatchers refer to it' % victim)
    for tag in ('A', 'B'):
        on[tag].discard(victim)
    round_('after the drop (fresh handler not registered yet)')
    for tag in ('A', 'B'):
        disp[tag].add_handler(strong[9])
        on[tag].add(9)
    round_('after registering the fresh handler with A and B')
    sp.cover('fresh-served')
    sp.done()


def h_weak(sp, k=2, world=True, cfgs=None, diag=False, drops=True, defer=(0,), klass=(0,)):
    table = WORLD_CFG if world else DISPATCHER_CFG
    allowed = list(range(N_CLASSIC[bool(world)])) if cfgs is None else list(cfgs)
    cfg = [table[sp.pick(allowed, 'config[h%d]' % i)] for i in range(k)]
    kill = []
    for i in range(k):
        row = []
        for j in range(k):
            if (i != j or diag) and sp.flag('kill[%d][%d]' % (i, j)):
                row.append(j)
        kill.append(tuple(row))
    pre = [bool(drops and sp.flag('drop-before[h%d]' % i)) for i in range(k)]
    mid = [bool(drops and sp.flag('drop-between[h%d]' % i)) for i in range(k)]
    cls = KLASSES[sp.pick(list(klass), 'handler-class')]
    if cls is not K:
        sp.note('handler class: %s (%s)' % (cls.__name__, cls.__doc__))
    dmode = sp.pick(list(defer), 'deferred-mode')
    if dmode:
        sp.note('the dispatch with disappearing handlers%s is issued while disabled and released by '
                'dispatch_enabled = True' % (' and the last dispatch' if dmode == 2 else ''))
    what0 = '%s, %s' % ('World' if world else 'EventDispatcher', '; '.join(
        'h%d=%s%s/%s kills %s' % (i, cfg[i][0], '+kept' if cfg[i][1] else '', cfg[i][2], list(kill[i]))
        for i in range(k)))
    sp.note(what0)
    sp.note('drops before: %r   drops between the dispatches: %r' % (pre, mid))
    if any(kill):
        sp.cover('kill-relation')
    # Schedule coverage: the program is run again and again (first once per creation order of the handlers) until
    # every order of the listeners alive at the first dispatch has been exercised.  With referent hashing the slot
    # constants make the k! creation orders produce the k! listener orders; a dispatcher that hashes its weak
    # references by identity produces orders that depend on addresses, then a few more runs (with some garbage
    # kept alive in between to move the addresses) are needed.  Every run is a complete, fully judged program.
    perms = list(itertools.permutations(range(k)))
    orders, need, junk, t = set(), None, [], 0
    while True:
        perm = perms[t % len(perms)]
        what = 'run %d, creation order %r' % (t, list(perm))
        sp.note(what)
        order = run_program(sp, world, cfg, kill, pre, mid, perm, what, dmode, cls)
        orders.add(order)
        if need is None:
            need = set(itertools.permutations(sorted(order)))
        t += 1
        if t >= len(perms) and orders == need:
            break
        if t >= 80 * len(perms) or not orders <= need:
            raise HarnessBug('listener orders exercised %r after %d runs, needed %r: the listener order is not '
                             'under control' % (sorted(orders), t, sorted(need)))
        if t >= len(perms):
            junk.append([K(0, -1) for _ in range(1 + t % 3)])
    if t > len(perms):
        sp.cover('extra-runs-for-listener-orders')
    if len(need) > 1:
        sp.cover('all-listener-orders')
    sp.done()


SHARED_TAGS = ['shared-by-two-dispatchers', 'moved-between-dispatchers', 'per-instance-events',
               'second-instance-dropped', 'address-reused', 'fresh-served']
RELAY_TAGS = ['created-while-disabled', 'removed-while-disabled-world-only', 'on_remove-relayed',
              'queued-event-delivered', 'dead-after-relay']
HARNESSES = {
    'relay': dict(fn=h_relay, nontrivial=RELAY_TAGS[1:], required=RELAY_TAGS),
    'shared': dict(fn=h_shared, nontrivial=SHARED_TAGS[:3], required=SHARED_TAGS),
    'weak': dict(fn=h_weak,
                 nontrivial=['died-during-dispatch', 'detached-alive-during-dispatch', 'survivors-and-dead'],
                 required=['kill-relation', 'died-during-dispatch', 'died-before-its-turn',
                           'detached-alive-during-dispatch', 'survivors-and-dead', 'all-listener-orders',
                           'cleared-during-dispatch']),
}

NOCLEAR_REQ = ['kill-relation', 'died-during-dispatch', 'died-before-its-turn', 'detached-alive-during-dispatch',
               'survivors-and-dead', 'all-listener-orders']
SLOT_REQ = ['kill-relation', 'died-during-dispatch', 'died-before-its-turn', 'detached-alive-during-dispatch',
            'survivors-and-dead', 'all-listener-orders', 'slotted-handler-died']
REPL_REQ = ['kill-relation', 'died-during-dispatch', 'died-before-its-turn', 'survivors-and-dead',
            'all-listener-orders', 'replaced-during-dispatch', 'address-reused', 'replacement-served-later']
DEFER_REQ = NOCLEAR_REQ + ['died-during-deferred-release', 'cleared-during-dispatch']

TIERS = {
    'quick': [
        ('relay', dict(k=2)),
        ('shared', dict()),
        ('weak', dict(k=2, world=False, diag=True)),
        ('weak', dict(k=2, world=True, diag=True)),
        ('weak', dict(k=3, world=False, drops=False)),
        ('weak', dict(k=3, world=True, cfgs=[0, 1, 3, 4, 6], drops=False)),
        ('weak', dict(k=2, world=False, diag=True, drops=False, defer=(1, 2)), {'required': DEFER_REQ}),
        ('weak', dict(k=2, world=True, diag=True, drops=False, defer=(1, 2)), {'required': DEFER_REQ}),
        ('weak', dict(k=3, world=True, cfgs=[0, 1, 3, 4, 6], drops=False, defer=(1,)), {'required': DEFER_REQ}),
        ('weak', dict(k=2, world=False, cfgs=[0, 1, 4], diag=True, drops=False, defer=(0, 1)), {'required': REPL_REQ}),
        ('weak', dict(k=3, world=False, cfgs=[0, 4], drops=False), {'required': REPL_REQ}),
        ('weak', dict(k=2, world=True, cfgs=[0, 2, 8, 9], diag=True, drops=False, defer=(0, 1)),
         {'required': REPL_REQ}),
        ('weak', dict(k=3, world=True, cfgs=[0, 8, 9], drops=False), {'required': REPL_REQ}),
        ('weak', dict(k=2, world=False, cfgs=[0, 1, 2], drops=True, klass=(1, 2)), {'required': SLOT_REQ}),
        ('weak', dict(k=2, world=True, cfgs=[0, 1, 3, 4], drops=False, klass=(1, 2)), {'required': SLOT_REQ}),
    ],
    'thorough': [
        ('relay', dict(k=3)),
        ('shared', dict()),
        ('weak', dict(k=3, world=False, diag=True, drops=False)),
        ('weak', dict(k=3, world=False)),
        ('weak', dict(k=2, world=True, diag=True)),
        ('weak', dict(k=3, world=True, drops=False)),
        ('weak', dict(k=3, world=True, cfgs=[0, 1, 3, 4]), {'required': NOCLEAR_REQ}),
        ('weak', dict(k=3, world=True, cfgs=[1, 4, 6, 7])),
        ('weak', dict(k=3, world=False, drops=False, defer=(1, 2)), {'required': DEFER_REQ}),
        ('weak', dict(k=2, world=True, diag=True, defer=(1, 2)), {'required': DEFER_REQ}),
        ('weak', dict(k=3, world=True, drops=False, defer=(1, 2)), {'required': DEFER_REQ}),
        ('weak', dict(k=3, world=False, cfgs=[0, 1, 3, 4], drops=False, defer=(0, 1)), {'required': REPL_REQ}),
        ('weak', dict(k=2, world=False, cfgs=[0, 1, 4], diag=True), {'required': REPL_REQ}),
        ('weak', dict(k=3, world=True, cfgs=[0, 1, 4, 8, 9], drops=False, defer=(0, 1)), {'required': REPL_REQ}),
        ('weak', dict(k=2, world=True, cfgs=[0, 2, 3, 8, 9], diag=True), {'required': REPL_REQ}),
        ('weak', dict(k=3, world=False, cfgs=[0, 1, 2], drops=False, klass=(1, 2), defer=(0, 1)), {'required': SLOT_REQ}),
        ('weak', dict(k=2, world=True, diag=True, klass=(1, 2)), {'required': SLOT_REQ + ['cleared-during-dispatch']}),
    ],
}
BUDGET_S = {'quick': 120, 'thorough': 1500}

EXPLANATION = (
    'Every path is a program over k handlers of one event: per handler who holds it strongly and by which route '
    'it disappears (drop the last reference, remove_handler, remove_component, delete_entity(immediate), clear() of the '
    'dispatcher or World followed by dropping the last reference), a kill '
    'matrix (whose callback makes whom disappear), drops before and between the dispatches; all of these are '
    'solver choices and the explorer visits every feasible combination.  The program runs natively on the real '
    'EventDispatcher / World with CPython reference counting, once per assignment of handlers to creation slots, '
    'so that every listener iteration order is exhibited (verified on every path by a probe dispatch).  Oracle: '
    'no callback ever sees receiver None, no handler is called once an earlier callback of the same dispatch dropped '
    'its last strong reference, dispatch raises nothing, weak references to handlers nobody holds are '
    'dead after del + gc.collect(), later dispatches reach exactly the handlers that are still attached.')
RULE = ('one evaluation = one feasible path = one program (run under all k! listener orders); non-trivial = a '
        'handler died or was detached in the middle of a dispatch, or a later dispatch had both survivors and dead')
BOUNDS = {
    'quick': '2 handlers: all configurations (4 on an EventDispatcher, 8 on a World, incl. clear()), full 2x2 kill matrix incl. self, '
             'drops before and between the dispatches; 3 handlers: 6-bit kill matrix, no drops, 4 dispatcher / 5 World '
             'configurations; deferred mode (the dispatch with disappearing handlers, optionally also the last one, '
             'is issued while disabled and released by dispatch_enabled = True): 2 handlers on both kinds of '
             'dispatcher, 3 handlers on a World; every program under all k! listener orders',
    'thorough': 'EventDispatcher: 3 handlers (9-bit matrix without drops; 6-bit matrix with 6 drop bits); World: 2 handlers '
                'all options; 3 handlers x 6 configurations x 6-bit matrix; 3 handlers x 4 configurations x 6-bit '
                'matrix x 6 drop bits; deferred mode: 3 handlers on both kinds of dispatcher (6-bit matrix), 2 handlers '
                'on a World with drops; every program under all k! listener orders',
}
ASSUMPTIONS = [
    'a handler that is alive but was detached from the World by remove_component or delete_entity(immediate) '
    'may or may not be reached by later dispatches (whether detaching unregisters is C02); it is never reached twice',
    'a handler made to disappear during a dispatch while somebody still holds it (kept by the program, or removed '
    'with remove_handler) may or may not be reached by that dispatch; one whose last strong reference was dropped '
    'by an earlier callback of the dispatch must not be called any more (neither with receiver None nor kept '
    'alive by the dispatcher)',
    'handlers removed with remove_handler must not be reached later (dispatcher semantics, C03)',
    'replace routes: the killing callback drops the victim (last reference / remove_component) and at once creates '
    'and registers a fresh handler of the same class; the fresh one may or may not be served by the dispatch in '
    'progress and must be served by every later dispatch, the victim must never be called; that the fresh object '
    'gets the address of the victim is up to CPython and is witnessed by the required cover tag address-reused',
    'clear() on the dispatcher / World unregisters every handler (documented): later dispatches reach nobody; '
    'handlers the program still holds stay alive, components only the World held are gone; during the dispatch in '
    'which clear() is called every handler counts as made to disappear in that dispatch',
    'handler objects define __hash__ as a per-slot constant (legal Python) so that listener order is '
    'reproducible; gc.collect() is only called when a weak reference is not already dead',
    'relay harness: a handler component removed while dispatching is disabled gets its deferred on_remove exactly '
    'once, on a live receiver, when dispatching is enabled (the pending relay may keep it alive until then), the '
    'enabling assignment raises nothing, the other queued events reach the attached handlers, and afterwards the '
    'removed handler is dead unless the program holds it; whether a removed handler still sees events queued before '
    'its removal is not asserted',
    'handler classes that declare __slots__ but remain weakly referenceable (__weakref__ among the slots, or an '
    'empty __slots__ in a subclass of a plain class) are held weakly like any other handler; classes whose '
    'instances cannot be weakly referenced at all are outside (add_handler cannot take them)',
    'shared harness: a handler registered with two dispatchers (or moved from one to the other) that loses its last '
    'reference is released by both, called by neither, reported as registered by neither; a fresh handler created '
    'right afterwards (address reuse witnessed by a required cover tag) is not registered until added and is then '
    'served by both; instances of one class may carry their own __events__',
    'reference counting CPython (the statement is about dropping the last reference)',
]
OUTSIDE = ['more than 3 handlers of one event', 'handlers kept alive only by reference cycles that gc has not '
           'collected yet at dispatch time', 'other Python implementations', 'deferred delete_entity (C05)',
           'threads']

TECHNIQUE = 'bounded symbolic execution (symx/z3) of kill matrices under native CPython reference counting, all listener orders'
