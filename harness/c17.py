"""C17 — a static resource map is a faithful, immutable mirror.

Shape: a resource tree of depth <= 3 is built through the public API from solver-chosen structure
(number of entries per map, which names, handle / layered handle / sub-map per entry); one snapshot is
taken with get_static_map() and compared with the map node by node, then every snapshot node is attacked
with setattr/delattr and the comparison is repeated.

Per level the first sub-map entry (the spine) is expanded with the full choice of the next level, other
sub-maps get the fixed content {a: handle}: get_static_map() treats every map independently, so
exhaustive name sets per map plus nesting along one spine cover the interactions.
"""
import re
from itertools import combinations, permutations, product

from desper.model import Handle, ResourceMap, StaticResourceMap

PROPERTY = 'C17'

# identifier, identifier, non-identifier (space), non-identifier (digit first), keyword, private-style,
# name-mangling style, dunder style (not a member of object), non-ASCII identifier, empty
NAMES = ['a', 'b', 'b c', '1x', 'class', '_y', '__x', '__x__', 'é', '']
SUB5 = ['a', 'b c', '__x', 'class', '']
SUB4 = ['a', 'b c', '__x', 'class']
SUB3 = ['a', '__x', '1x']
SUB2 = ['a', '__x']
SUB3B = ['a', 'b c', '__x']
# pairs that differ only by a non-word character versus '_' (or the '_' put in front of a leading digit)
SAN = ['b c', 'b_c', 'n w', 'n_w', '1x', '_1x']
# boundary shapes of Python's private-name mangling rule (a name in a class body / in __slots__ is mangled iff it
# starts with two underscores and does not end with two underscores); all are identifiers, none is a member of object
MANGLE = ['__x_', '__x_y', '__x', '__', '___', '__x__', '_x_', 'x__']
MANGLE6 = ['__x_', '__x_y', '__', '___', '_x_', 'x__']


def sanitised(name):
    """attribute-friendly spelling: non-word characters -> '_', leading digit gets a '_' in front"""
    alias = re.sub(r'\W', '_', name)
    return '_' + alias if alias[:1].isdigit() else alias


class ValHandle(Handle):
    def __init__(self, label, value):
        self.label = label
        self.value = value
        self.loads = 0

    def load(self):
        self.loads += 1
        return self.value

    def __repr__(self):
        return '<H %s>' % self.label


FLAVOURS = ('falsy', 'empty', 'equal')
_flavoured = {}


def flavoured(base, flavour):
    """subclass of `base` whose INSTANCES have unusual truthiness / equality (identity is what counts):
    falsy: __bool__ False; empty: __len__ 0; equal: == everything, constant hash"""
    if flavour == 'plain':
        return base
    if (base, flavour) not in _flavoured:
        ns = {'falsy': {'__bool__': lambda self: False},
              'empty': {'__len__': lambda self: 0},
              'equal': {'__eq__': lambda self, other: True, '__ne__': lambda self, other: False,
                        '__hash__': lambda self: 7}}[flavour]
        _flavoured[(base, flavour)] = type(flavour.capitalize() + base.__name__, (base,), dict(ns))
    return _flavoured[(base, flavour)]


class Node:
    def __init__(self, real):
        self.real = real
        self.kids = {}          # name -> ValHandle | Node


class Ctx:
    def __init__(self, rot, flavour='plain'):
        self.n = 0
        self.rot = rot
        self.flavour = flavour

    def map(self):
        return flavoured(ResourceMap, self.flavour)()

    def handle(self):
        i = self.n
        self.n += 1
        k = (i + self.rot) % 3
        value = (('token', i, object()), None, 0)[k]
        return flavoured(ValHandle, self.flavour)('h%d=%s' % (i, ('token', 'None', '0')[k]), value)


def build(sp, cx, levels, depth, label):
    """a fresh map populated from solver choices; returns its model Node"""
    real = cx.map()
    node = Node(real)
    names, nmax = levels[depth][:2]
    ordered = len(levels[depth]) > 2 and levels[depth][2] == 'ordered'     # both insertion orders
    nk = 3 if depth + 1 < len(levels) else 2        # handle, layered handle, (sub-map)
    configs = [((), ())]
    for n in range(1, nmax + 1):
        for combo in (permutations if ordered else combinations)(names, n):
            for kinds in product(range(nk), repeat=n):
                configs.append((combo, kinds))
    combo, kinds = sp.pick(configs, label)          # one finite-domain solver variable per map
    spine_done = False
    for k, kind in zip(combo, kinds):
        if kind == 0:
            h = cx.handle()
            real[k] = h
            node.kids[k] = h
            sp.note('%s[%r] = %r' % (label, k, h))
        elif kind == 1:
            # layered as DirectoryResourcePopulator does on a name conflict
            old, h = cx.handle(), cx.handle()
            real[k] = old
            real.handles.maps.insert(0, {})
            real[k] = h
            node.kids[k] = h
            sp.cover('layered')
            sp.note('%s[%r] = %r shadowing %r' % (label, k, h, old))
        else:
            if not spine_done:
                spine_done = True
                sub = build(sp, cx, levels, depth + 1, '%s/%s' % (label, k))
            else:
                sub = Node(cx.map())
                h = cx.handle()
                sub.real['a'] = h
                sub.kids['a'] = h
            real[k] = sub.real
            node.kids[k] = sub
            sp.note('%s[%r] = sub-map with names %r' % (label, k, sorted(sub.kids)))
        if not k.isidentifier():
            sp.cover('non-identifier')
        for other in combo:
            if other != k and sanitised(other) == sanitised(k):
                # two names of one map that differ only by a non-word character versus '_'
                sp.cover('sanitised-name-collision')
                kk = dict(zip(combo, kinds))
                sp.cover('sanitised-collision-%s' % (
                    'handle-vs-map' if (kk[k] == 2) != (kk[other] == 2) else 'maps' if kk[k] == 2 else 'handles'))
                sp.cover('sanitised-collision-identifier-%s' % (
                    'first' if [x for x in combo if x in (k, other)][0].isidentifier() else 'last'))
        if k.startswith('__') and k.endswith('_') and not k.endswith('__'):
            sp.cover('mangled-with-one-trailing-underscore')
        if k.startswith('__') and k.endswith('__'):
            sp.cover('only-underscores' if not k.strip('_') else 'dunder-style')
        if k.startswith('__') and not k.endswith('__'):
            sp.cover('mangling-style')
            if all(x.isidentifier() for x in combo):
                sp.cover('mangling-style-all-identifiers')
    return node


def probe(fn):
    """('value', v) or ('raised', exception)"""
    try:
        return 'value', fn()
    except Exception as ex:         # noqa
        return 'raised', ex


def compare(sp, snap, node, root, prefix, when, absent_names):
    """snapshot `snap` must mirror model node `node` (whose real map is node.real)."""
    sp.check(isinstance(snap, StaticResourceMap), 'mirror-map',
             '%s: %r is not a StaticResourceMap but %r' % (when, '/'.join(prefix), type(snap)))
    for k in sorted(node.kids):
        exp = node.kids[k]
        path = prefix + (k,)
        ps = '/'.join(path)
        item = probe(lambda: snap[k])
        sp.check(item[0] == 'value', 'mirror-item', '%s: snapshot[%r] at %r raised %r' % (when, k, ps, item[1]))
        got = probe(lambda: snap.get(k))
        sp.check(got[0] == 'value', 'mirror-get', '%s: snapshot.get(%r) at %r raised %r' % (when, k, ps, got[1]))
        attr = None
        if k.isidentifier():
            attr = probe(lambda: getattr(snap, k))
            sp.check(attr[0] == 'value', 'mirror-attr',
                     '%s: attribute %r of the snapshot at %r raised %r' % (when, k, ps, attr[1]))
            sp.cover('attr-access')
        if isinstance(exp, ValHandle):
            res = node.real[k]                  # the map's own answer
            sp.check(item[1] is res, 'mirror-item',
                     '%s: snapshot[%r] is %r, the map gives %r' % (when, ps, item[1], res))
            sp.check(root[ps] is item[1], 'mirror-item',
                     '%s: m[%r] and the chained snapshot items differ' % (when, ps))
            if attr is not None:
                sp.check(attr[1] is res, 'mirror-attr',
                         '%s: snapshot attribute at %r is %r, the map gives %r' % (when, ps, attr[1], res))
            sp.check(got[1] is node.real.get(k) and got[1] is exp, 'mirror-get',
                     '%s: snapshot.get at %r gives %r, the map has handle %r' % (when, ps, got[1], exp))
            sp.cover('handle-compared')
            if len(path) >= 2:
                sp.cover('deep-handle-compared')
            if res is None or res == 0:
                sp.cover('falsy-resource')
        else:
            compare(sp, item[1], exp, root, path, when, absent_names)
            if got[1] is not item[1]:
                compare(sp, got[1], exp, root, path, when + ' (via get)', absent_names)
            if attr is not None and attr[1] is not item[1]:
                compare(sp, attr[1], exp, root, path, when + ' (via attribute)', absent_names)
            sp.cover('submap-compared')
    for k in absent_names:
        if k in node.kids:
            continue
        ps = '/'.join(prefix + (k,))
        for what, fn in (('snapshot[%r]', lambda: snap[k]), ('getattr(snapshot, %r)', lambda: getattr(snap, k)),
                         ('snapshot.get(%r)', lambda: snap.get(k))):
            out = probe(fn)
            sp.check(out[0] == 'raised', 'absent-stays-absent',
                     '%s: %s at %r yields %r, the map has no such name' % (when, what % k, ps, out[1]))
        mp = probe(lambda: node.real[k])
        sp.check(mp[0] == 'raised', 'harness-model', 'model out of sync with the map at %r' % ps)


def attack(sp, snap, node, prefix, absent_names):
    """setattr / delattr on this snapshot node and, recursively, its sub-snapshots"""
    present = sorted(node.kids)
    absent = [k for k in absent_names if k not in node.kids]
    targets = present + absent[:2] + ['_handle_names']
    for k in targets:
        for what, fn in (('setattr', lambda: setattr(snap, k, 'intruder')), ('delattr', lambda: delattr(snap, k))):
            out = probe(fn)
            sp.check(out[0] == 'raised', 'immutable',
                     '%s(snapshot at %r, %r) did not raise' % (what, '/'.join(prefix), k))
    sp.cover('attacked')
    for k in present:
        if isinstance(node.kids[k], Node):
            sub = probe(lambda: snap[k])
            if sub[0] == 'value' and isinstance(sub[1], StaticResourceMap):
                attack(sp, sub[1], node.kids[k], prefix + (k,), absent_names)
                sp.cover('attacked-submap')


NEW_NAMES = ['new', 'n w']        # identifier / non-identifier, never used by build()


def mutations(model):
    """the phase-2 alphabet for this tree, deterministic order"""
    out = []

    def rec(node, path):
        routes = ['direct'] + (['composite'] if path else [])
        for name in NEW_NAMES:
            for r in routes:
                out.append(('add', path, name, r))
        handles = [k for k in sorted(node.kids) if isinstance(node.kids[k], ValHandle)]
        if handles:
            for r in routes:
                out.append(('replace', path, handles[0], r))
                out.append(('tomap', path, handles[0], r))
        out.append(('clear', path, None, 'direct'))
        for k in sorted(node.kids):
            if isinstance(node.kids[k], Node):
                rec(node.kids[k], path + (k,))
    rec(model, ())
    return out


ALIAS_NAMES = ['alias', 'o', 'sh', 'own']       # names the aliasing phase adds


def map_nodes(model):
    """(path, node) of every sub-map below the root, deterministic order"""
    out = []

    def rec(node, path):
        for k in sorted(node.kids):
            if isinstance(node.kids[k], Node):
                out.append((path + (k,), node.kids[k]))
                rec(node.kids[k], path + (k,))
    rec(model, ())
    return out


def shared_mutations(shared):
    """mutations inside the shared sub-map: (what, path relative to the shared map, name, route)"""
    out = []

    def rec(node, rel):
        for name in NEW_NAMES[:1] if rel else NEW_NAMES:
            for r in ('direct', 'first-owner', 'other-owner'):
                out.append(('add', rel, name, r))
        handles = [k for k in sorted(node.kids) if isinstance(node.kids[k], ValHandle)]
        if handles:
            for r in ('direct', 'first-owner', 'other-owner'):
                out.append(('replace', rel, handles[0], r))
                out.append(('tomap', rel, handles[0], r))
        out.append(('clear', rel, None, 'direct'))
        for k in sorted(node.kids):
            if isinstance(node.kids[k], Node):
                rec(node.kids[k], rel + (k,))
    rec(shared, ())
    return out


def take(sp, real, what):
    try:
        return real.get_static_map()
    except Exception as ex:         # noqa
        sp.fail('snapshot-raises', '%s: get_static_map() raised %r' % (what, ex))


def alias_phase(sp, cx, m, model, snap, absent_names):
    """One ResourceMap object stored under two owners, snapshots taken from the FIRST owner `m` before and after
    a change made through the shared object / through either owner's path.  Only reads and snapshots are checked
    (what .parent of a map with two owners should be is not fixed by the statement)."""
    names = absent_names + NEW_NAMES + ALIAS_NAMES
    spath, shared = sp.pick(map_nodes(model), 'shared')
    holder = node_at(model, spath[:-1])
    kind = sp.pick(['other-root', 'same-parent', 'nested-sibling'], 'second-owner')
    other_model = None
    if kind == 'other-root':
        other = cx.map()
        h = cx.handle()
        other['own'] = h
        other['sh'] = shared.real
        other_model = Node(other)
        other_model.kids = {'own': h, 'sh': shared}
        other_root, other_prefix = other, ('sh',)
        sp.note('alias: b = map{own: %r}; b[\'sh\'] = (the sub-map at %r of m)' % (h, '/'.join(spath)))
    elif kind == 'same-parent':
        holder.real['alias'] = shared.real
        holder.kids['alias'] = shared
        other_root, other_prefix = m, spath[:-1] + ('alias',)
        sp.note('alias: (map %r of m)[\'alias\'] = (the sub-map at %r of m)' % ('/'.join(spath[:-1]), '/'.join(spath)))
    else:
        o = cx.map()
        m['o'] = o
        m['o/sh'] = shared.real
        on = Node(o)
        on.kids = {'sh': shared}
        model.kids['o'] = on
        other_root, other_prefix = m, ('o', 'sh')
        sp.note('alias: m[\'o\'] = map{}; m[\'o/sh\'] = (the sub-map at %r of m)' % ('/'.join(spath),))
    sp.cover('alias-' + kind)
    if sp.flag('first-owner-last'):
        # store the shared map once more at its original place (same object, same name): the first owner is
        # the one that attached it last
        holder.real[spath[-1]] = shared.real
        sp.note('alias: (map %r of m)[%r] = the same sub-map again' % ('/'.join(spath[:-1]), spath[-1]))
        sp.cover('alias-first-owner-last')
    else:
        sp.cover('alias-second-owner-last')
    snap_a = take(sp, m, 'first owner, after aliasing')
    compare(sp, snap_a, model, m, (), 'snapshot of the first owner after aliasing', names)
    frozen_a = Frozen(model)
    if other_model is not None:
        compare(sp, take(sp, other_model.real, 'second owner'), other_model, other_model.real, (),
                'snapshot of the second owner', names)
    # one change inside the shared map
    what, rel, name, route = sp.pick(shared_mutations(shared), 'shared-mutation')
    node = node_at(shared, rel)
    try:
        if what == 'clear':
            sp.note('alias: (shared sub-map, relative path %r).clear()' % '/'.join(rel))
            node.real.clear()
            node.kids = {}
        else:
            h = cx.handle()
            if what == 'tomap':
                value = cx.map()
                value['a'] = h
                mval = Node(value)
                mval.kids['a'] = h
            else:
                value = mval = h
            if route == 'direct':
                sp.note('alias: (shared sub-map, relative path %r)[%r] = %s' % ('/'.join(rel), name, what))
                node.real[name] = value
            elif route == 'first-owner':
                key = '/'.join(spath + rel + (name,))
                sp.note('alias: m[%r] = %s' % (key, what))
                m[key] = value
            else:
                key = '/'.join(other_prefix + rel + (name,))
                sp.note('alias: %s[%r] = %s' % ('b' if kind == 'other-root' else 'm', key, what))
                other_root[key] = value
            node.kids[name] = mval
    except Exception as ex:         # noqa
        sp.fail('harness-model', 'aliasing phase mutation raised %r' % (ex,))
    sp.cover('alias-' + what)
    sp.cover('alias-mutation-' + route)
    snap_b = take(sp, m, 'first owner, after the change through the shared map')
    compare(sp, snap_b, model, m, (), 'snapshot of the first owner after a change made through the shared map', names)
    if other_model is not None:
        compare(sp, take(sp, other_model.real, 'second owner'), other_model, other_model.real, (),
                'snapshot of the second owner after the change', names)
    compare_frozen(sp, snap_a, frozen_a, (), 'snapshot taken before the change through the shared map')
    sp.cover('old-snapshot-after-' + what)
    attack(sp, snap, model, (), names)
    guarded_attack(sp, snap_b, model, names, 'last snapshot')
    compare(sp, snap_b, model, m, (), 'last snapshot after setattr/delattr attempts', names)


def node_at(model, path):
    for k in path:
        model = model.kids[k]
    return model


def clone(cx, node):
    """a second map with the same layout (same names, same kinds) but its own handle and map objects"""
    twin = Node(cx.map())
    for k, v in node.kids.items():
        if isinstance(v, Node):
            sub = clone(cx, v)
            twin.real[k] = sub.real
            twin.kids[k] = sub
        else:
            h = cx.handle()
            twin.real[k] = h
            twin.kids[k] = h
    return twin


def distinct(sp, sa, sb, na, nb, prefix):
    """snapshots of two different maps with the same layout must hand out each map's own handles"""
    for k in sorted(na.kids):
        a, b = probe(lambda: sa.get(k)), probe(lambda: sb.get(k))
        if a[0] != 'value' or b[0] != 'value':
            continue                    # reported by the mirror comparison
        if isinstance(na.kids[k], Node):
            if isinstance(a[1], StaticResourceMap) and isinstance(b[1], StaticResourceMap):
                distinct(sp, a[1], b[1], na.kids[k], nb.kids[k], prefix + (k,))
        else:
            sp.check(a[1] is not b[1], 'twin-snapshots-independent',
                     'snapshots of two different maps with the same names hand out the same handle %r at %r' % (
                         a[1], '/'.join(prefix + (k,))))
            sp.cover('twin-handle-compared')


def all_handles(model):
    """every handle of the model tree once, deterministic order"""
    out, seen = [], set()

    def rec(node):
        if id(node) in seen:
            return
        seen.add(id(node))
        for k in sorted(node.kids):
            v = node.kids[k]
            if isinstance(v, Node):
                rec(v)
            elif not any(v is x for x in out):
                out.append(v)
    rec(model)
    return out


def guarded_attack(sp, snap, model, names, when):
    """setattr/delattr attempts must raise AND change nothing: every second handle is cleared first so that the
    attack hits names of cached and of uncached handles; (cached, number of load() calls, cached object) of every
    handle must be the same afterwards"""
    hs = all_handles(model)
    for i, h in enumerate(hs):
        if i % 2 == 0:
            h.clear()
            sp.cover('attack-on-uncached-handle-name')
        elif h.cached:
            sp.cover('attack-on-cached-handle-name')
    before = [(h.cached, h.loads) for h in hs]
    attack(sp, snap, model, (), names)
    for h, (cached, loads) in zip(hs, before):
        sp.check(h.cached is cached and h.loads == loads, 'attack-changes-nothing',
                 '%s: after the refused setattr/delattr attempts handle %r has cached=%r (was %r) and %d load() '
                 'calls (was %d)' % (when, h, h.cached, cached, h.loads, loads))
        if cached:
            sp.check(h() is h.value and h.loads == loads, 'attack-changes-nothing',
                     '%s: cached object of %r changed during the attack' % (when, h))


class Frozen:
    """what a snapshot showed when it was taken: name -> handle object then | Frozen"""

    def __init__(self, node):
        self.kids = {k: (Frozen(v) if isinstance(v, Node) else v) for k, v in node.kids.items()}


def compare_frozen(sp, snap, frozen, prefix, when):
    """an OLD snapshot after the source map changed.  Asserted (unambiguous, HEAD does it): it is immutable, so
    every name that was a handle when it was taken still yields that handle's resource (never a Handle object),
    get still yields that handle object, and sub-snapshots present then are still present."""
    for k in sorted(frozen.kids):
        then = frozen.kids[k]
        ps = '/'.join(prefix + (k,))
        probes = [('snapshot[%r]', probe(lambda: snap[k]))]
        if k.isidentifier():
            probes.append(('snapshot attribute %r', probe(lambda: getattr(snap, k))))
        for what, out in probes:
            sp.check(out[0] == 'value', 'old-snapshot-stable',
                     '%s: %s at %r of the old snapshot raised %r' % (when, what % k, ps, out[1]))
            if isinstance(then, Frozen):
                sp.check(isinstance(out[1], StaticResourceMap), 'old-snapshot-stable',
                         '%s: %s at %r of the old snapshot is %r, it was a sub-snapshot' % (when, what % k, ps, out[1]))
            else:
                sp.check(not isinstance(out[1], Handle), 'old-snapshot-stable',
                         '%s: %s at %r of the old snapshot yields the raw Handle %r instead of its resource' % (
                             when, what % k, ps, out[1]))
                sp.check(out[1] is then(), 'old-snapshot-stable',
                         '%s: %s at %r of the old snapshot yields %r, not the resource of the handle stored there '
                         'when the snapshot was taken' % (when, what % k, ps, out[1]))
        got = probe(lambda: snap.get(k))
        if isinstance(then, Frozen):
            sp.check(got[0] == 'value' and isinstance(got[1], StaticResourceMap), 'old-snapshot-stable',
                     '%s: get(%r) at %r of the old snapshot gives %r' % (when, k, ps, got[1]))
            sub = probe(lambda: snap[k])
            if sub[0] == 'value' and isinstance(sub[1], StaticResourceMap):
                compare_frozen(sp, sub[1], then, prefix + (k,), when)
        else:
            sp.check(got[0] == 'value' and got[1] is then, 'old-snapshot-stable',
                     '%s: get(%r) at %r of the old snapshot gives %r, not the handle stored then' % (when, k, ps, got[1]))
    sp.cover('old-snapshot-rechecked')


def h_static(sp, levels=((NAMES, 2), (SUB4, 2), (SUB2, 1)), rots=1, mutate=False, flavours=('plain',), alias=False, twin=False):
    levels = [(list(lv[0]),) + tuple(lv[1:]) for lv in levels]
    rot = sp.choose(rots, 'value-rotation')
    flavour = sp.pick(list(flavours), 'flavour')       # instance flavour of every handle and map object
    cx = Ctx(rot, flavour)
    if flavour != 'plain':
        sp.note('all handles and maps are %s instances' % flavour)
        sp.cover('flavour-' + flavour)
    model = build(sp, cx, levels, 0, 'm')
    m = model.real
    absent_names = list(NAMES) + sorted(({n for lv in levels for n in lv[0]} | {'b_c', 'n_w', '_1x'}) - set(NAMES))
    if twin:
        # two coexisting maps with the same layout: each snapshot mirrors its own map.  The independence check
        # comes first so that it is the clause that fires (and replays) when snapshots are mixed up
        if not any(isinstance(v, ValHandle) for v in model.kids.values()):
            sp.assume(False)            # a root-level handle makes the independence check bite on every path
        other = clone(cx, model)
        sa, sb = take(sp, m, 'first map'), take(sp, other.real, 'twin map')
        distinct(sp, sa, sb, model, other, ())
        compare(sp, sb, other, other.real, (), 'snapshot of the twin map', absent_names)
        compare(sp, sa, model, m, (), 'snapshot of the first map (taken before the twin\'s)', absent_names)
        sp.cover('twin-maps')
        if any(isinstance(v, Node) for v in model.kids.values()):
            sp.cover('twin-maps-nested')
    try:
        snap = m.get_static_map()
    except Exception as ex:         # noqa
        sp.fail('snapshot-raises', 'get_static_map() raised %r' % (ex,))
    compare(sp, snap, model, m, (), 'fresh snapshot', absent_names)
    frozen = Frozen(model)
    guarded_attack(sp, snap, model, absent_names, 'first snapshot')
    compare(sp, snap, model, m, (), 'after setattr/delattr attempts', absent_names)
    if mutate:
        # phase 2: one mutation of the tree, then a FRESH snapshot must mirror the map as it is now
        what, path, name, route = sp.pick(mutations(model), 'mutation')
        node = node_at(model, path)
        where = 'sub-map %r' % '/'.join(path) if path else 'root'
        try:
            if what == 'clear':
                sp.note('phase 2: (%s).clear()' % where)
                node.real.clear()
                if node.kids:
                    sp.cover('resnapshot-after-clear-nonempty')
                node.kids = {}
                sp.cover('resnapshot-after-clear')
            else:
                h = cx.handle()
                value = mval = h
                if what == 'tomap':
                    value = cx.map()
                    value['a'] = h
                    mval = Node(value)
                    mval.kids['a'] = h
                if route == 'composite':
                    key = '/'.join(path + (name,))
                    sp.note('phase 2: m[%r] = %r   (%s)' % (key, value, what))
                    m[key] = value
                    sp.cover('resnapshot-after-composite-key')
                else:
                    sp.note('phase 2: (%s)[%r] = %r   (%s)' % (where, name, value, what))
                    node.real[name] = value
                    if path:
                        sp.cover('resnapshot-after-direct-edit')
                node.kids[name] = mval
                sp.cover('resnapshot-after-' + what)
        except Exception as ex:         # noqa
            sp.fail('harness-model', 'phase 2 mutation raised %r' % (ex,))
        if path:
            sp.cover('nested-mutation-resnapshot')
            if len(path) >= 2:
                sp.cover('deep-nested-mutation-resnapshot')
        else:
            sp.cover('root-mutation-resnapshot')
        try:
            snap2 = m.get_static_map()
        except Exception as ex:         # noqa
            sp.fail('snapshot-raises', 'second get_static_map() raised %r' % (ex,))
        compare(sp, snap2, model, m, (), 'fresh snapshot after the mutation', absent_names + NEW_NAMES)
        # the old snapshot: read-only, and it still shows what it showed when it was taken
        compare_frozen(sp, snap, frozen, (), 'old snapshot after the mutation')
        sp.cover('old-snapshot-after-' + what)
        attack(sp, snap, model, (), absent_names + NEW_NAMES)
        compare_frozen(sp, snap, frozen, (), 'old snapshot after the mutation and setattr/delattr attempts')
        guarded_attack(sp, snap2, model, absent_names, 'second snapshot')
        compare(sp, snap2, model, m, (), 'second snapshot after setattr/delattr attempts',
                absent_names + NEW_NAMES)
    if alias:
        if not map_nodes(model):
            sp.assume(False)            # no sub-map to share in this tree
        alias_phase(sp, cx, m, model, snap, absent_names)
    sp.done()


_TAGS = ['attack-on-uncached-handle-name', 'attack-on-cached-handle-name', 'layered', 'non-identifier', 'mangling-style', 'mangling-style-all-identifiers', 'attr-access',
         'handle-compared', 'deep-handle-compared', 'falsy-resource', 'submap-compared', 'attacked',
         'attacked-submap']

HARNESSES = {
    'static': dict(fn=h_static, nontrivial=_TAGS + ['nested-mutation-resnapshot', 'root-mutation-resnapshot'],
                   required=_TAGS),
    # same function, explored in-process and first: two coexisting maps with the same layout (a defect that mixes
    # up snapshots of different maps would otherwise first show as a cross-path effect that does not replay)
    'twin': dict(fn=h_static, nontrivial=['twin-maps-nested'], required=['twin-maps'], split=False),
}

_MUT_TAGS = ['old-snapshot-rechecked', 'old-snapshot-after-add', 'old-snapshot-after-replace',
             'old-snapshot-after-tomap', 'old-snapshot-after-clear', 'resnapshot-after-tomap',
             'nested-mutation-resnapshot', 'deep-nested-mutation-resnapshot', 'root-mutation-resnapshot',
             'resnapshot-after-composite-key', 'resnapshot-after-direct-edit', 'resnapshot-after-clear',
             'resnapshot-after-clear-nonempty', 'resnapshot-after-add', 'resnapshot-after-replace']
_MUT_REQ = _TAGS + _MUT_TAGS
_ALIAS_REQ = ['old-snapshot-rechecked', 'old-snapshot-after-tomap', 'old-snapshot-after-clear',
              'attack-on-uncached-handle-name', 'attack-on-cached-handle-name', 'alias-other-root', 'alias-same-parent', 'alias-nested-sibling', 'alias-first-owner-last',
              'alias-second-owner-last', 'alias-add', 'alias-replace', 'alias-tomap', 'alias-clear',
              'alias-mutation-direct', 'alias-mutation-first-owner', 'alias-mutation-other-owner',
              'handle-compared', 'deep-handle-compared', 'submap-compared', 'attacked-submap', 'layered',
              'non-identifier']
_SAN_REQ = ['sanitised-name-collision', 'sanitised-collision-handles', 'sanitised-collision-maps',
            'sanitised-collision-handle-vs-map', 'sanitised-collision-identifier-first',
            'sanitised-collision-identifier-last', 'attack-on-uncached-handle-name', 'layered', 'non-identifier',
            'attr-access', 'handle-compared', 'deep-handle-compared', 'submap-compared', 'attacked-submap']
_TWIN_REQ = ['twin-maps', 'twin-maps-nested', 'twin-handle-compared', 'handle-compared', 'submap-compared', 'layered']
_FLAV_REQ = _TAGS + ['flavour-falsy', 'flavour-empty', 'flavour-equal']
_MANGLE_REQ = ['attack-on-uncached-handle-name', 'attack-on-cached-handle-name', 'layered', 'mangling-style', 'mangling-style-all-identifiers', 'mangled-with-one-trailing-underscore',
               'only-underscores', 'dunder-style', 'attr-access', 'handle-compared', 'deep-handle-compared',
               'falsy-resource', 'submap-compared', 'attacked', 'attacked-submap']

TIERS = {
    'quick': [('twin', dict(levels=[[['a', 'b c', '__x'], 2], [SUB2, 1]], rots=1, twin=True), {'required': _TWIN_REQ}),
              ('static', dict(levels=[[NAMES, 2], [SUB3B, 2], [SUB2, 1]], rots=1)),
              # mangling shapes: every sibling is an identifier, so no __dict__ rescues a wrongly declared slot
              ('static', dict(levels=[[MANGLE, 2], [MANGLE6, 1]], rots=1), {'required': _MANGLE_REQ}),
              ('static', dict(levels=[[['a', 'b c'], 2], [SUB3B, 2], [SUB2, 1]], rots=1, mutate=True),
               {'required': _MUT_REQ}),
              ('static', dict(levels=[[NAMES, 2], [SUB2, 1]], rots=1, flavours=FLAVOURS), {'required': _FLAV_REQ}),
              ('static', dict(levels=[[['a', 'b c'], 2], [SUB2, 1]], rots=1, alias=True), {'required': _ALIAS_REQ}),
              # names that collide after replacing non-word characters by '_', handles and sub-maps, both orders
              ('static', dict(levels=[[SAN, 2, 'ordered'], [['b c', 'b_c'], 2, 'ordered']], rots=1),
               {'required': _SAN_REQ})],
    'thorough': [('twin', dict(levels=[[NAMES, 2], [SUB2, 1]], rots=1, twin=True), {'required': _TWIN_REQ}),
                 ('static', dict(levels=[[NAMES, 3], [SUB3B, 2], [SUB2, 1]], rots=1)),
                 ('static', dict(levels=[[SUB5, 2], [SUB5, 2], [SUB3, 1]], rots=1)),
                 ('static', dict(levels=[[NAMES, 2], [SUB3B, 2], [SUB2, 1]], rots=3)),
                 ('static', dict(levels=[[MANGLE, 3], [MANGLE6, 2]], rots=1), {'required': _MANGLE_REQ}),
                 ('static', dict(levels=[[MANGLE + ['b c'], 2], [MANGLE6, 1]], rots=1, mutate=True),
                  {'required': _MANGLE_REQ + ['nested-mutation-resnapshot', 'root-mutation-resnapshot']}),
                 ('static', dict(levels=[[SUB3B, 2], [SUB3B, 2], [SUB2, 1]], rots=1, mutate=True),
                  {'required': _MUT_REQ}),
                 ('static', dict(levels=[[NAMES, 2], [SUB2, 1], [['a'], 1]], rots=1, mutate=True),
                  {'required': _MUT_REQ}),
                 ('static', dict(levels=[[NAMES, 2], [SUB3B, 2], [SUB2, 1]], rots=1, flavours=FLAVOURS),
                  {'required': _FLAV_REQ}),
                 ('static', dict(levels=[[SUB3B, 2], [SUB2, 1]], rots=1, flavours=FLAVOURS, mutate=True),
                  {'required': _FLAV_REQ + ['nested-mutation-resnapshot', 'root-mutation-resnapshot']}),
                 ('static', dict(levels=[[['a', 'b c'], 2], [SUB2, 2], [['a'], 1]], rots=1, alias=True),
                  {'required': _ALIAS_REQ}),
                 ('static', dict(levels=[[SUB3B, 2], [SUB2, 1]], rots=1, alias=True, flavours=('plain',) + FLAVOURS),
                  {'required': _ALIAS_REQ + ['flavour-equal', 'flavour-falsy', 'flavour-empty']}),
                 ('static', dict(levels=[[SAN, 2, 'ordered'], [['b c', 'b_c'], 2, 'ordered']], rots=1),
                  {'required': _SAN_REQ}),
                 ('static', dict(levels=[[['b c', 'b_c', '1x', '_1x'], 3, 'ordered'], [['b c', 'b_c'], 2, 'ordered']],
                       rots=1), {'required': _SAN_REQ}),
                 ('static', dict(levels=[[['b c', 'b_c', 'a'], 2, 'ordered'], [['b c', 'b_c'], 2, 'ordered']], rots=1,
                       mutate=True), {'required': _SAN_REQ + ['nested-mutation-resnapshot', 'old-snapshot-rechecked']})],
}
BUDGET_S = {'quick': 300, 'thorough': 1500}

EXPLANATION = (
    'Bounded symbolic execution of the real ResourceMap.get_static_map / StaticResourceMap code: the shape of a '
    'resource tree (per map: how many entries, which names, handle / layered handle / sub-map) is drawn from '
    'finite-domain solver variables, the tree is built through the public API, one snapshot is taken and '
    'compared node by node with the map ([] , attribute access for identifier names, get, absent names), '
    'then setattr/delattr is attempted on every snapshot node for present, absent and internal names and the '
    'comparison is repeated.  Entries with mutate=True add a second phase: one solver-chosen mutation of the tree '
    '(add or replace a handle in the root or a nested sub-map, through a composite key on the root or directly on '
    'the sub-map object, or clear() of a map), then a fresh get_static_map() is compared in full with the mutated '
    'map; the old snapshot is only required to stay read-only.  z3 decides every fork; the explorer visits every feasible path inside the bounds.')
RULE = ('one evaluation = one feasible path = one distinct tree shape; non-trivial = the tree has a layered '
        'handle, a non-identifier name, a name subject to private-name mangling, a sub-map, or a falsy resource')
BOUNDS = {
    'quick': "names a,b,'b c','1x',class,_y,__x,__x__,e-acute,'' ; root map: every set of <=2 names x "
             "{handle, layered handle, sub-map}; spine sub-map: <=2 names of a,'b c',__x; third level <=1 of a,__x; "
             "mangling shapes: root <=2 of __x_,__x_y,__x,__,___,__x__,_x_,x__ x kinds, spine <=1 of them; "
             "sanitised-name collisions: root <=2 (both insertion orders) of 'b c',b_c,'n w',n_w,1x,_1x x kinds, "
             "spine <=2 of 'b c',b_c; "
             "aliasing: root <=2 of a,'b c', spine <=1 of a,__x, x shared sub-map x {other root, same parent, sibling} "
             "x which owner attached last x one change inside the shared map by 3 routes; "
             "re-snapshot phase: root <=2 of a,'b c' with the same lower levels, x every mutation {add 'new' / "
             "'n w', replace first handle, clear} x {root, each nested map} x {direct, composite key on the root}",
    'thorough': "root map: every set of <=3 of the 10 names x kinds, spine sub-map <=2 of a,'b c',__x, third "
                "level <=1 of a,__x; root and second level <=2 of a,'b c',__x,class,'' with third level <=1 of "
                "a,__x,1x; plus the quick universe with the three rotations of loaded values (token, None, 0); "
                "sanitised-name collisions: the quick entry, root <=3 ordered of 'b c',b_c,1x,_1x, and 'b c',b_c,a with "
                "the re-snapshot phase; "
                "mangling shapes: root <=3 and spine <=2 of the 8 shapes; the shapes + 'b c' with the re-snapshot phase; "
                "re-snapshot phase: root and spine <=2 of a,'b c',__x with third level <=1 of a,__x, and root <=2 "
                "of the 10 names with spine <=1 of a,__x and third level <=1 of a, x every mutation",
}
ASSUMPTIONS = [
    'twin entries (first in each tier, so that they start in a fresh interpreter): a second map with the same '
    'names and kinds but its own handles coexists; both are snapshotted and each snapshot must mirror its own map',
    'aliasing entries: one ResourceMap object is stored under two owners (another root map, the same parent under '
    'a second name, or a sibling sub-map); snapshots are always taken from the first owner (and from the other '
    'root) and must mirror what the map itself answers at the time of the call; nothing is assumed about '
    '.parent/.key of the shared map',
    'flavour entries: every handle and map object is an instance of a subclass that is falsy, empty (__len__ 0) or '
    'equal to everything; the oracle is unchanged and only compares identities',
    'names colliding with members of the snapshot (get, _handle_names, attributes of object such as __class__, '
    '__dict__, __slots__, __init__) are excluded by the property and never generated; __x__, __, ___ are not '
    'members of object and are used',
    '"absent" is observed as: [] , getattr and get raise some Exception (the type is not prescribed)',
    '"raises" for setattr/delattr: any Exception',
    'per level only the first sub-map is expanded with the full choice, further sub-maps hold {a: handle}; '
    'get_static_map treats each map independently',
    'attribute access is exercised with getattr for every identifier name (keywords included)',
    're-snapshot phase: "mirrors the map" is read as: the map as it is when get_static_map() is called; a snapshot '
    'taken before the mutation is immutable: every name that was a handle then still yields that handle\'s resource '
    '(never a Handle object), get yields that handle object, sub-snapshots present then are still present, and it '
    'stays read-only; whether it also shows names added later is not asserted',
    '"changes nothing" for refused setattr/delattr includes the handles: cached flag, number of load() calls and '
    'cached object of every handle are unchanged (every second handle is cleared before the attack)',
]
OUTSIDE = ['names colliding with snapshot members', 'mutation that bypasses setattr/delattr '
           '(object.__setattr__, vars(snapshot) when a __dict__ exists)', 'trees deeper than 3 or wider than the '
           'bound', 'whether a snapshot taken before a mutation shows names added afterwards', 'more than one mutation between snapshots']

TECHNIQUE = 'bounded symbolic execution (symx/z3) over tree shapes and name kinds, mirror oracle'
