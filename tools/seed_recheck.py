#!/usr/bin/env python3
"""Re-run every kept seeded change against the current /repo HEAD (in one scratch worktree) and report which
check catches it now.  usage: seed_recheck.py [names...]   (default: all of seeded/*)"""
import glob, json, os, subprocess, sys
VERIF = os.path.dirname(os.path.dirname(os.path.abspath(__file__)))
WT = os.environ.get('SEED_WT', '/tmp/wt-seeds')


def sh(cmd, cwd=None):
    p = subprocess.run(cmd, shell=True, cwd=cwd, capture_output=True, text=True)
    return p.returncode, p.stdout + p.stderr


def main():
    names = sys.argv[1:] or sorted(os.path.basename(d) for d in glob.glob(os.path.join(VERIF, 'seeded', '*')) if os.path.isdir(d))
    sh('git -C /repo worktree remove --force %s' % WT)
    rc, out = sh('git -C /repo worktree add --detach %s HEAD' % WT)
    assert rc == 0, out
    rows = []
    try:
        for name in names:
            d = os.path.join(VERIF, 'seeded', name)
            meta = json.load(open(os.path.join(d, 'meta.json')))
            pids = []
            for k in meta.get('checks', {}):
                p = k.split('/')[0]
                if p not in pids:
                    pids.append(p)
            rc, out = sh('git apply %s' % os.path.join(d, 'patch.diff'), cwd=WT)
            if rc != 0:
                rows.append((name, 'PATCH DOES NOT APPLY to HEAD', ''))
                sh('git checkout -- .', cwd=WT)
                continue
            res = []
            try:
                for p in pids:
                    rc, out = sh('VERIF_EVIDENCE_DIR=%s-evidence DESPER_REPO=%s bin/check %s --tier quick' % (WT, WT, p), cwd=VERIF)
                    cl = [l for l in out.splitlines() if l.startswith('counterexample')]
                    clause = cl[0].split('clause ')[1].split(')')[0] if cl else ''
                    res.append('%s exit %d %s' % (p, rc, clause))
            finally:
                sh('git checkout -- .', cwd=WT)
            meta['recheck'] = res
            json.dump(meta, open(os.path.join(d, 'meta.json'), 'w'), indent=1)
            rows.append((name, '; '.join(res), ''))
            print(name, '::', '; '.join(res), flush=True)
    finally:
        sh('git -C /repo worktree remove --force %s' % WT)


if __name__ == '__main__':
    main()
