"""Drive CrossHair 0.0.110 through its Python API; verdicts: confirmed / refuted (with counterexample text) /
inconclusive."""
import collections
import importlib
import time


def _install_isinstance_fix():
    from crosshair.core import _PATCH_REGISTRATIONS
    import crosshair.libimpl.builtinslib as bl
    from crosshair.tracers import NoTracing
    orig = bl._issubclass

    def _isinstance_fix(obj, types):
        try:
            return orig(type(obj), types)
        except TypeError:
            with NoTracing():
                return isinstance(obj, types)
    _PATCH_REGISTRATIONS[isinstance] = _isinstance_fix


def check(modname, fname, timeout):
    from crosshair.core_and_libs import analyze_function, run_checkables, AnalysisKind, MessageType
    from crosshair.options import AnalysisOptionSet
    _install_isinstance_fix()
    mod = importlib.import_module(modname)
    fn = getattr(mod, fname)
    stats = collections.Counter()
    opts = AnalysisOptionSet(analysis_kind=[AnalysisKind.PEP316], per_condition_timeout=timeout,
                             per_path_timeout=10.0, report_all=True, stats=stats,
                             max_uninteresting_iterations=10 ** 9)
    t0 = time.time()
    msgs = list(run_checkables(analyze_function(fn, opts)))
    wall = time.time() - t0
    verdict, text = 'inconclusive', ''
    for m in msgs:
        if m.state == MessageType.CONFIRMED:
            verdict = 'confirmed'
        elif m.state in (MessageType.POST_FAIL, MessageType.EXEC_ERR, MessageType.POST_ERR):
            verdict, text = 'refuted', m.message
            break
        else:
            verdict, text = 'inconclusive', '%s %s' % (m.state, m.message)
    if not msgs:
        verdict, text = 'inconclusive', 'no message'
    return dict(verdict=verdict, text=text[:2000], stats=dict(stats), wall=round(wall, 2))
