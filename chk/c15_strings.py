"""CrossHair conditions for C15: claims over ALL strings (no length bound)."""
import desper.model.world as mw
from desper.model import ResourceMap, Handle


class _H(Handle):
    def load(self):
        return 42


def _transform(s):
    m = ResourceMap()
    h = _H()
    m['w'] = h
    d = {'type': int, 'args': [s], 'kwargs': {'k': s}}
    mw.object_dict_transformer(h, None, {}, d)
    mw.resource_dict_transformer(h, None, {}, d)
    return d


def passthrough(s: str) -> bool:
    """
    Arguments that do not begin with one of the markers pass through unchanged.

    pre: not s.startswith('${') and not s.startswith('$res{') and not s.startswith('$handle{')
    post: _
    """
    d = _transform(s)
    return d['args'][0] == s and d['kwargs']['k'] == s and len(d['args']) == 1 and len(d['kwargs']) == 1


def reach_passthrough(s: str) -> bool:
    """
    Reachability twin of passthrough: must be refuted.

    pre: not s.startswith('${') and not s.startswith('$res{') and not s.startswith('$handle{')
    post: not _
    """
    d = _transform(s)
    return d['args'][0] == s and d['kwargs']['k'] == s


def _object_marker_body(name):
    saved = mw.object_from_string
    mw.object_from_string = lambda n: ('OBJ', n)
    try:
        d = {'type': int, 'args': ['${' + name + '}'], 'kwargs': {'k': '${' + name + '}'}}
        mw.object_dict_transformer(None, None, {}, d)
    finally:
        mw.object_from_string = saved
    return d['args'][0] == ('OBJ', name) and d['kwargs']['k'] == ('OBJ', name)


def object_marker(name: str) -> bool:
    """
    '${' + name + '}' is replaced by whatever object_from_string(name) names, for every non-empty name
    without a line break (the lookup itself is stubbed: it returns a recording tuple).

    pre: 0 < len(name) <= 3 and chr(10) not in name
    post: _
    """
    return _object_marker_body(name)


def object_marker_long(name: str) -> bool:
    """
    pre: 0 < len(name) <= 6 and chr(10) not in name
    post: _
    """
    return _object_marker_body(name)


def object_marker_xl(name: str) -> bool:
    """
    pre: 0 < len(name) <= 16 and chr(10) not in name
    post: _
    """
    return _object_marker_body(name)
