"""Helpers shared by harness/c08.py and harness/c09.py."""
from fractions import Fraction
from math import gcd

import z3

from symx.proxies import SBool, SReal, all_of
from symx.space import GRID, GRID_MAX


def NOT(c):
    """Negation of a condition that is a python bool (replay space) or an SBool."""
    return ~c if isinstance(c, SBool) else (not c)


def pin_reals_to_grid(sp, reals):
    """Work-around for an engine gap (see the C08 report): `Space.assignment()` asks z3 for a model on the
    dyadic grid k/1024 with one mixed Int/Real query; on the C08 path conditions that query sometimes runs
    into the 30 s cap and comes back `unknown`, which the runner (rightly) turns into exit 3.

    All real constraints of the C08 harness are *homogeneous* (the only constant is 0: dt >= 0, w > 0,
    timer + w <= timer', ...), so every positive multiple of a model is a model.  We take the rational
    model z3 already has, multiply by the common denominator, put it on the grid and - after a fresh solver
    has confirmed that the pinned point satisfies the whole path condition - assume it, as the last action
    of the path (all oracle checks have been made on the unpinned path condition before).  The engine's own
    grid query is then trivial.  If anything does not fit nothing is pinned and the engine proceeds as usual.
    """
    if not sp.symbolic:
        return
    reals = [r for r in reals if isinstance(r, SReal)]
    if not reals:
        return
    try:
        asg = sp.assignment(grid=False)
        vals = [Fraction(asg[r.n.decl().name()]) for r in reals]
    except Exception:       # noqa  (engine control flow is BaseException and passes through)
        return
    den = 1
    for v in vals:
        den = den * v.denominator // gcd(den, v.denominator)
    ints = [int(v * den) for v in vals]
    if max(abs(i) for i in ints) > GRID_MAX:
        return
    pins = [r == Fraction(i, GRID) for r, i in zip(reals, ints)]
    s = z3.Solver()
    s.set('timeout', 5000)
    s.add(*sp.pc)
    s.add(*[p.e for p in pins])
    if s.check() != z3.sat:
        return
    sp.assume(all_of(sp, pins))
