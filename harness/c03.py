"""C03 — an enabled dispatcher delivers each event once to each listener.

Harness `history`: a real EventDispatcher, handlers h0..h2 of three decorated classes (HC inherits HA and
overrides one mapping), either from the empty dispatcher (shape H) or from a state built out of symbolic
per-handler registration histories (shape I), then `steps` operations add_handler / remove_handler /
dispatch(event, argument shape).  For every dispatch each listener gets a pre-drawn *nested action* that its
callback executes (remove self / remove other / add other / dispatch the other event, whose callbacks again
may add or remove).  Every dispatch() call - top level or nested - is a frame with its own expectation.

Harness `decor`: class hierarchies (chain, siblings, diamond, two roots) built at run time; per class and
event name the decoration is absent / positional / keyword->m1 / keyword->m2.  After every decoration all
classes created so far are re-read; instances are then registered and every event name is dispatched.
"""
import itertools

from desper.events import EventDispatcher, event_handler

from harness.hb_util import order_hashes, steer, HarnessBug

PROPERTY = 'C03'


# ------------------------------------------------------------------------------------------ history
class HBase:
    def __init__(self, env, idx, hv):
        self.env, self.idx, self.hv = env, idx, hv

    def __hash__(self):             # constant chosen by hb_util.order_hashes: fixes the listener order
        return self.hv


def _rec(name):
    def method(self, *args, **kwargs):
        self.env.hit(self, name, args, kwargs)
    method.__name__ = name
    return method


@event_handler('e1', e2='on_two')
class HA(HBase):
    e1 = _rec('e1')
    on_two = _rec('on_two')
    e2 = _rec('e2')             # same name as an event, but not the mapped method
    alt = _rec('alt')
    unknown = _rec('unknown')


@event_handler(e1='other')
class HB(HBase):
    other = _rec('other')
    e1 = _rec('e1')             # not mapped
    e2 = _rec('e2')             # not mapped: HB does not listen to e2
    unknown = _rec('unknown')


@event_handler(e1='alt')
class HC(HA):                   # inherits e2 -> on_two, overrides e1 -> alt
    pass


CLASSES = [HA, HB, HC]
for _c in CLASSES:
    _c.BASE = _c

# Flavours of handler *instances*: the statement quantifies over all handlers, also those with unusual
# truthiness or equality.  Sub-classes only add the dunder; mappings and methods are inherited.
FLAVOURS = ['plain', 'bool-false', 'len-zero', 'equal-to-everything']


def _flavoured(base, flavour):
    if flavour == 'plain':
        return base
    body = {'BASE': base, 'FLAVOUR': flavour}
    if flavour == 'bool-false':
        body['__bool__'] = lambda self: False
    elif flavour == 'len-zero':
        body['__len__'] = lambda self: 0
    else:
        body['__eq__'] = lambda self, other: True       # also equal to None; != is always False
        body['__hash__'] = HBase.__hash__               # the hb_util constant: distinct per handler
    return type('%s_%s' % (base.__name__, flavour.replace('-', '_')), (base,), body)


FLAVOURED = [[_flavoured(c, f) for f in FLAVOURS] for c in CLASSES]
# the oracle's own statement of who listens to what, through which method
MAP = {HA: {'e1': 'e1', 'e2': 'on_two'}, HB: {'e1': 'other'}, HC: {'e1': 'alt', 'e2': 'on_two'}}
EVENTS = ['e1', 'e2', 'unknown']
SHAPES = [(0, 0), (1, 0), (2, 0), (0, 1), (1, 1), (2, 1)]


class Frame:
    def __init__(self, event, args, kwargs, reg, actions, depth):
        self.event, self.args, self.kwargs = event, args, kwargs
        self.reg0 = set(reg)
        self.touched = set()
        self.calls = []
        self.actions = dict(actions)
        self.depth = depth


class Env:
    def __init__(self, sp, n, order, flavours=None):
        self.sp = sp
        self.d = EventDispatcher()
        self.order = tuple(order)
        events = [[(i, getattr(CLASSES[i], MAP[CLASSES[i]][ev])) for i in range(n) if ev in MAP[CLASSES[i]]]
                  for ev in ('e1', 'e2')]
        hv = order_hashes(events, n, self.order)
        self.flavours = list(flavours) if flavours is not None else [0] * n
        self.n = n
        self.probing, self.probe_log = False, []
        self.hs, tries = steer(
            lambda: [FLAVOURED[i][self.flavours[i]](self, i, hv[i]) for i in range(n)], self.probe)
        self.steered = tries > 0
        # first candidates fit: the dispatcher hashes weak references like their referents and the constants rule the
        # order exactly (any deviation is a harness bug).  Otherwise the order was found by trial on addresses: a
        # residual hash collision can still reorder a later listener set; that is recorded, not fatal (the engine
        # replays every counterexample anyway).
        self.strict = tries == 1
        self.reg = set()
        self.frames = []
        self.nested_plan = None     # (actor, action) for the callbacks of nested dispatches
        self.tainted = False        # an active dispatch (callbacks with side effects) has run
        self.kwnames = ('key',)
        self.cleared_once = set()   # handlers that were registered when clear() was called
        self.double = set()         # registered handlers that were added again while registered
        self.removed_after_double = set()   # ... and then removed once
        self.serial = 0

    def probe(self, cands):
        """are these objects served in the requested order?  (scratch dispatchers, every registration order, so
        that a hash collision inside the listener set shows up as a changed order)"""
        self.probing = True
        try:
            for ins in itertools.permutations(range(self.n)):
                scratch = EventDispatcher()
                for i in ins:
                    scratch.add_handler(cands[i])
                for ev in ('e1', 'e2'):
                    del self.probe_log[:]
                    scratch.dispatch(ev)
                    if self.probe_log != [i for i in self.order if ev in MAP[CLASSES[i]]]:
                        return False
            return True
        except Exception:       # noqa  a broken dispatcher: go on unsteered, the real run will show it
            return False
        finally:
            self.probing = False

    # ---- registration (program side + model)
    def add(self, j, where):
        if j in self.reg:
            self.sp.cover('double-add')
            self.double.add(j)
        elif j in self.cleared_once:
            self.sp.cover('readded-after-clear')
        self.d.add_handler(self.hs[j])
        self.reg.add(j)
        for f in self.frames:
            f.touched.add(j)
        self.sp.note('%sadd_handler(h%d)' % (where, j))

    def remove(self, j, where):
        if j not in self.reg:
            self.sp.cover('remove-unregistered')
        elif j in self.double:
            self.removed_after_double.add(j)
        self.double.discard(j)
        self.d.remove_handler(self.hs[j])
        self.reg.discard(j)
        for f in self.frames:
            f.touched.add(j)
        self.sp.note('%sremove_handler(h%d)' % (where, j))

    def clear(self, where):
        if self.reg:
            self.sp.cover('cleared-registered-handlers')
        self.d.clear()
        self.cleared_once |= set(self.reg)
        self.reg.clear()
        for f in self.frames:
            f.touched.update(range(self.n))
        self.sp.note('%sclear()' % where)

    def check_membership(self, when):
        for i, h in enumerate(self.hs):
            got = self.d.is_handler(h)
            self.sp.check(got is (i in self.reg), 'is_handler', '%s: is_handler(h%d) is %r, registered: %r'
                          % (when, i, got, i in self.reg))

    # ---- dispatching
    def make_args(self, shape, label):
        npos, nkw = shape
        args = []
        if npos >= 1:
            args.append(self.sp.int(label + '.payload'))       # a solver integer travels through untouched
        if npos >= 2:
            args.append(object())
        kwargs = {}
        if nkw:
            name = self.sp.pick(list(self.kwnames), label + '.kwname')
            kwargs[name] = object()
            self.sp.cover('kwarg-name-' + name)
        return tuple(args), kwargs

    def do_dispatch(self, event, args, kwargs, actions, where):
        sp = self.sp
        fr = Frame(event, args, kwargs, self.reg, actions, len(self.frames))
        self.frames.append(fr)
        sp.note('%sdispatch(%r, %d positional, %d keyword)  registered: %r' % (
            where, event, len(args), len(kwargs), sorted(self.reg)))
        try:
            self.d.dispatch(event, *args, **kwargs)
        except Exception as ex:     # noqa
            sp.fail('dispatch-raises', '%sdispatch(%r) raised %r' % (where, event, ex))
        finally:
            self.frames.pop()
        self.judge(fr, where)

    def hit(self, h, method, args, kwargs):
        sp = self.sp
        if self.probing:
            self.probe_log.append(h.idx)
            return
        if not self.frames:
            sp.fail('spurious-call', 'h%d.%s called while no dispatch is running' % (h.idx, method))
        fr = self.frames[-1]
        fr.calls.append((h.idx, method, args, kwargs))
        sp.note('%s  -> h%d.%s' % ('    ' * fr.depth, h.idx, method))
        act = fr.actions.pop(h.idx, None)       # executed on the first call only
        if act is None or act == 'none':
            return
        where = '    ' * (fr.depth + 1) + 'in callback of h%d: ' % h.idx
        i, n = h.idx, self.n
        if act == 'rm self':
            self.remove(i, where)
            sp.cover('removed-during-dispatch')
        elif act in ('rm next', 'rm prev'):
            self.remove((i + (1 if act == 'rm next' else n - 1)) % n, where)
            sp.cover('removed-during-dispatch')
        elif act in ('add next', 'add prev'):
            self.add((i + (1 if act == 'add next' else n - 1)) % n, where)
            sp.cover('added-during-dispatch')
        elif act == 'disp':
            other = 'e2' if fr.event == 'e1' else 'e1'
            self.serial += 1
            nargs, nkwargs = (object(),), {'key': object()}
            nested = {}
            if self.nested_plan is not None:
                actor, nact = self.nested_plan
                nested[actor] = nact
            sp.cover('nested-dispatch')
            self.do_dispatch(other, nargs, nkwargs, nested, where)
        elif act in ('disp unknown', 'disp back'):
            # third level: a callback of the nested dispatch dispatches again - an event nobody listens to, or the
            # event of the outermost dispatch, whose loop is still running two levels up
            ev = 'unknown' if act == 'disp unknown' else ('e2' if fr.event == 'e1' else 'e1')
            sp.cover('nested-dispatch-depth-3')
            self.do_dispatch(ev, (object(),), {}, {}, where)
        self.check_membership(where + 'after the nested action')

    # ---- oracle for one dispatch() call
    def judge(self, fr, where):
        sp = self.sp
        for i, h in enumerate(self.hs):
            mine = [c for c in fr.calls if c[0] == i]
            mapped = MAP[h.BASE].get(fr.event)
            what = '%sdispatch(%r): handler h%d (%s)' % (where.strip() + ' ' if where.strip() else '', fr.event, i,
                                                           type(h).__name__)
            if i in fr.touched:
                sp.check(len(mine) <= 1, 'duplicate', '%s was called %d times' % (what, len(mine)))
                if mapped is None:
                    sp.check(not mine, 'spurious-call', '%s does not listen to the event but was called' % what)
            elif i in fr.reg0 and mapped is not None:
                sp.check(len(mine) >= 1, 'missed', '%s is registered and was not called' % what)
                sp.check(len(mine) == 1, 'duplicate', '%s was called %d times' % (what, len(mine)))
                sp.cover('delivered')
                if i in self.double:
                    sp.cover('dispatch-after-double-add')
                if self.flavours[i]:
                    sp.cover('delivered-to-' + FLAVOURS[self.flavours[i]])
            else:
                sp.check(not mine, 'spurious-call', '%s is not a registered listener but was called: %r'
                         % (what, [c[1] for c in mine]))
                if i in self.removed_after_double and i not in self.reg and mapped is not None:
                    sp.cover('dispatch-after-double-add-and-one-remove')
            for (_, method, args, kwargs) in mine:
                sp.check(method == mapped, 'wrong-method', '%s: method %r called, the mapping says %r'
                         % (what, method, mapped))
                sp.check(len(args) == len(fr.args) and all(a is b for a, b in zip(args, fr.args)), 'args',
                         '%s received %d positional arguments / not the dispatched objects' % (what, len(args)))
                sp.check(sorted(kwargs) == sorted(fr.kwargs) and all(kwargs[k] is fr.kwargs[k] for k in fr.kwargs),
                         'kwargs', '%s received keyword arguments %r' % (what, sorted(kwargs)))
        if len({c[0] for c in fr.calls}) >= 2:
            sp.cover('two-listeners')
            if not fr.touched and self.steered:
                seen = [c[0] for c in fr.calls]
                if seen != [i for i in self.order if i in seen] and not self.strict:
                    sp.cover('listener-order-deviated')
                elif seen != [i for i in self.order if i in seen]:
                    raise HarnessBug('listener order %r observed, %r requested: hash control failed'
                                       % (seen, self.order))
                if self.order != tuple(range(self.n)):
                    sp.cover('non-default-listener-order')
        if fr.event == 'unknown' or not any(fr.event in MAP[self.hs[i].BASE] for i in fr.reg0):
            sp.cover('nobody-listens')


PRE = ['never', 'added', 'added twice', 'added, removed', 'added, removed, added', 'added, clear(), added']


def h_history(sp, n=3, build=False, steps=3, menu=('none', 'rm self', 'rm next', 'add next', 'disp'),
              shapes=(0, 2, 5), nested=True, pre=(0, 1, 2, 3, 4), orders=(0,), flavours=(0,), clear=True,
              kwnames=('key',)):
    perms = list(itertools.permutations(range(n)))
    order = perms[sp.pick(list(orders), 'listener-order')]
    sp.note('listener iteration order: %r' % (order,))
    fl = [sp.pick(list(flavours), 'flavour[h%d]' % i) for i in range(n)]
    if any(fl):
        sp.note('handler flavours: %s' % ', '.join('h%d=%s' % (i, FLAVOURS[f]) for i, f in enumerate(fl)))
    env = Env(sp, n, order, fl)
    env.kwnames = tuple(kwnames)
    if build:
        for i in range(n):
            hist = PRE[sp.pick(list(pre), 'history[h%d]' % i)]
            if hist != 'never':
                env.add(i, '')
            if hist == 'added twice':
                env.add(i, '')
            if hist.startswith('added, removed'):
                env.remove(i, '')
                sp.cover('removed-before')
            if hist == 'added, removed, added':
                env.add(i, '')
            if hist == 'added, clear(), added':      # clear() also unregisters the handlers built before
                env.clear('')
                env.add(i, '')
        env.check_membership('after build')
    for step in range(steps):
        op = sp.choose(2 * n + len(EVENTS) + (1 if clear else 0), 'op%d' % step)
        if op < n:
            env.add(op, '')
        elif op < 2 * n:
            if (op - n) in env.reg:
                sp.cover('removed-before')
            env.remove(op - n, '')
        elif op == 2 * n + len(EVENTS):
            env.clear('')
        else:
            event = EVENTS[op - 2 * n]
            shape = SHAPES[sp.pick(list(shapes), 'shape%d' % step)]
            # all choices are drawn before the callbacks run (their order is the set's business)
            # Determinism: which callbacks run first is the set's business and may differ between two runs of
            # the same decision prefix.  Hence actions are only drawn while nothing order-dependent has
            # happened yet (`active` still unused); after an active dispatch all later dispatches are plain.
            actions = {}
            if event != 'unknown' and not env.tainted:
                for i in sorted(env.reg):
                    if event in MAP[CLASSES[i]]:
                        actions[i] = sp.pick(list(menu), 'action%d[h%d]' % (step, i))
                if any(a != 'none' for a in actions.values()):
                    env.tainted = True
            elif env.tainted and event != 'unknown':
                sp.cover('dispatch-after-active-dispatch')
            env.nested_plan = None
            if nested and 'disp' in actions.values():
                k = sp.choose(1 + 5 * n, 'nested-plan%d' % step)
                if k:
                    env.nested_plan = ((k - 1) // 5, ('rm self', 'rm next', 'add next', 'disp unknown',
                                                      'disp back')[(k - 1) % 5])
            args, kwargs = env.make_args(shape, 'd%d' % step)
            env.do_dispatch(event, args, kwargs, actions, '')
        env.check_membership('after step %d' % step)
    if not env.steered:
        raise HarnessBug('the listener order %r could not be established although the path shows no violation' % (order,))
    sp.done()


# ------------------------------------------------------------------------------------------ twins
class TwinBase:
    """Handlers that are distinct objects but == to each other and hash-equal (what a frozen / eq dataclass
    component with equal field values is).  Everything the harness does with them goes by identity (idx)."""

    def __init__(self, rec, idx):
        self.rec, self.idx = rec, idx

    def __eq__(self, other):
        return isinstance(other, TwinBase)

    def __hash__(self):
        return 7


@event_handler('e1', e2='on_two')
class Twin(TwinBase):
    def e1(self, *args, **kwargs):
        self.rec.append((self.idx, 'e1', args, kwargs))

    def on_two(self, *args, **kwargs):
        self.rec.append((self.idx, 'on_two', args, kwargs))

    def e2(self, *args, **kwargs):          # not mapped
        self.rec.append((self.idx, 'e2', args, kwargs))


TWIN_MAP = {'e1': 'e1', 'e2': 'on_two'}


def h_twins(sp, n=2, build=False, steps=3, shapes=(0, 5), pre=(0, 1, 2, 3, 4)):
    """n equal-and-hash-equal handlers; plain callbacks only, so nothing depends on the listener order.
    Expectations are per *instance*: every registered instance is called exactly once per dispatch,
    is_handler answers per instance, remove_handler affects that instance only."""
    d = EventDispatcher()
    rec = []
    hs = [Twin(rec, i) for i in range(n)]
    reg = set()

    def add(i):
        if reg and i not in reg:
            sp.cover('twin-added-next-to-registered-twin')
        d.add_handler(hs[i])
        reg.add(i)
        sp.note('add_handler(t%d)' % i)

    def remove(i):
        if i in reg and len(reg) > 1:
            sp.cover('twin-removed-next-to-registered-twin')
        elif i not in reg and reg:
            sp.cover('unregistered-twin-removed')
        d.remove_handler(hs[i])
        reg.discard(i)
        sp.note('remove_handler(t%d)' % i)

    def membership(when):
        for i in range(n):
            got = d.is_handler(hs[i])
            sp.check(got is (i in reg), 'is_handler', '%s: is_handler(t%d) is %r, registered instances: %r '
                     '(t0..t%d are equal and hash-equal, but distinct objects)' % (when, i, got, sorted(reg), n - 1))

    if build:
        for i in range(n):
            hist = PRE[sp.pick(list(pre), 'history[t%d]' % i)]
            if hist != 'never':
                add(i)
            if hist == 'added twice':
                add(i)
            if hist.startswith('added, removed'):
                remove(i)
            if hist == 'added, removed, added':
                add(i)
        membership('after build')
    for step in range(steps):
        op = sp.choose(2 * n + len(EVENTS) + 1, 'op%d' % step)
        if op < n:
            add(op)
        elif op < 2 * n:
            remove(op - n)
        elif op == 2 * n + len(EVENTS):
            d.clear()
            reg.clear()
            sp.note('clear()')
        else:
            event = EVENTS[op - 2 * n]
            npos, nkw = SHAPES[sp.pick(list(shapes), 'shape%d' % step)]
            args = tuple([sp.int('d%d.payload' % step), object()][:npos])
            kwargs = {'key': object()} if nkw else {}
            del rec[:]
            sp.note('dispatch(%r, %d positional, %d keyword)  registered: %r' % (event, npos, nkw, sorted(reg)))
            try:
                d.dispatch(event, *args, **kwargs)
            except Exception as ex:     # noqa
                sp.fail('dispatch-raises', 'dispatch(%r) raised %r' % (event, ex))
            mapped = TWIN_MAP.get(event)
            for i in range(n):
                mine = [c for c in rec if c[0] == i]
                if i in reg and mapped is not None:
                    sp.check(len(mine) >= 1, 'missed', 'dispatch(%r): the registered instance t%d was not called '
                             '(calls went to %r)' % (event, i, [c[0] for c in rec]))
                    sp.check(len(mine) == 1, 'duplicate', 'dispatch(%r): t%d was called %d times'
                             % (event, i, len(mine)))
                    if len(reg) > 1:
                        sp.cover('two-twins-served')
                else:
                    sp.check(not mine, 'spurious-call', 'dispatch(%r): t%d is not a registered listener but was '
                             'called' % (event, i))
                for (_, method, a, kw) in mine:
                    sp.check(method == mapped, 'wrong-method', 'dispatch(%r): t%d.%s called' % (event, i, method))
                    sp.check(len(a) == len(args) and all(x is y for x, y in zip(a, args)), 'args',
                             'dispatch(%r): t%d got other positional arguments' % (event, i))
                    sp.check(sorted(kw) == sorted(kwargs) and all(kw[k] is kwargs[k] for k in kwargs), 'kwargs',
                             'dispatch(%r): t%d got keyword arguments %r' % (event, i, sorted(kw)))
        membership('after step %d' % step)
    sp.done()


# ------------------------------------------------------------------------------------------ decorator programs
NAMES = ['ea', 'eb', 'ec']
SPEC = ['absent', 'positional', 'kw->m1', 'kw->m2']
HIERARCHIES = {
    # name: list of (class name, indices of bases)
    'chain2': [('A', ()), ('B', (0,))],
    'chain3': [('A', ()), ('B', (0,)), ('C', (1,))],
    'siblings': [('A', ()), ('B', (0,)), ('C', (0,))],
    'diamond': [('A', ()), ('B', (0,)), ('C', (0,)), ('D', (1, 2))],
    'two-roots': [('A', ()), ('B', ()), ('C', (0, 1))],
}
MISSING = object()


def _spy(name):
    def method(self, *args, **kwargs):
        self.log.append((self, name, args, kwargs))
    method.__name__ = name
    return method


def read_events(cls):
    ev = getattr(cls, '__events__', MISSING)
    return ev, ({} if ev is MISSING else dict(ev))


def h_decor(sp, shape='chain3', nnames=2):
    names = NAMES[:nnames]
    classes, own, snap = [], [], []
    for ci, (cname, bases) in enumerate(HIERARCHIES[shape]):
        spec = [sp.pick(SPEC, '%s.%s' % (cname, ev)) for ev in names]
        pos = [ev for ev, s in zip(names, spec) if s == 'positional']
        kw = {ev: s[4:] for ev, s in zip(names, spec) if s.startswith('kw')}
        mine = dict((ev, ev) for ev in pos)
        mine.update(kw)
        body = {}
        if not bases:
            body = {m: _spy(m) for m in NAMES + ['m1', 'm2']}
            body['__init__'] = lambda self, log: setattr(self, 'log', log)
        cls = type(cname, tuple(classes[b] for b in bases) or (object,), body)
        sp.note('@event_handler(%s) class %s(%s)' % (
            ', '.join([repr(p) for p in pos] + ['%s=%r' % kv for kv in kw.items()]), cname,
            ', '.join(HIERARCHIES[shape][b][0] for b in bases)))
        ret = event_handler(*pos, **kw)(cls)
        sp.check(ret is cls, 'decorator-returns', 'event_handler(...) returned %r instead of the class' % (ret,))
        classes.append(cls)
        own.append(mine)
        if not mine:
            sp.cover('empty-decoration')
        # ---- the new class
        obj, got = read_events(cls)
        base_maps = [snap[b][1] for b in bases]
        if len(bases) <= 1:
            exp = dict(base_maps[0]) if bases else {}
            if any(ev in exp and exp[ev] != m for ev, m in mine.items()):
                sp.cover('override')
            if exp and any(ev not in exp for ev in mine):
                sp.cover('extend')
            exp.update(mine)
            sp.check(got == exp, 'mapping', 'class %s: __events__ is %r, inherited|own is %r' % (cname, got, exp))
        else:
            sp.cover('multiple-inheritance')
            for ev, m in mine.items():
                sp.check(got.get(ev) == m, 'mapping', 'class %s: own mapping %s->%s missing or not winning: %r'
                         % (cname, ev, m, got))
            first = next((c for c in cls.__mro__[1:] if c in classes and own[classes.index(c)]), None)
            if first is not None:
                for ev in snap[classes.index(first)][1]:
                    sp.check(ev in got, 'mapping', 'class %s: event %s of %s, the first decorated class of its MRO, '
                             'is lost: %r' % (cname, ev, first.__name__, got))
            for ev, m in got.items():
                sp.check(mine.get(ev) == m or any(bm.get(ev) == m for bm in base_maps), 'mapping',
                         'class %s: mapping %s->%s comes from nowhere' % (cname, ev, m))
        # ---- every class created before: same object, same content
        for cj in range(ci):
            obj_j, got_j = read_events(classes[cj])
            sp.check(obj_j is snap[cj][0] and got_j == snap[cj][1], 'base-altered',
                     'decorating %s changed %s.__events__ from %r to %r'
                     % (cname, HIERARCHIES[shape][cj][0], snap[cj][1], got_j))
        snap.append((obj, got))
    # ---- the mappings at work
    d = EventDispatcher()
    log = []
    insts = []
    for cls, (obj, got) in zip(classes, snap):
        if obj is MISSING:
            continue
        inst = cls(log)
        d.add_handler(inst)
        insts.append((inst, got))
    if len(insts) >= 2:
        sp.cover('several-classes-listen')
    for ev in names + ['nobody']:
        del log[:]
        token = object()
        try:
            d.dispatch(ev, token, key=token)
        except Exception as ex:     # noqa
            sp.fail('dispatch-raises', 'dispatch(%r) raised %r' % (ev, ex))
        for inst, got in insts:
            calls = [c for c in log if c[0] is inst]
            if ev in got:
                sp.check(len(calls) == 1 and calls[0][1] == got[ev], 'delivery',
                         'dispatch(%r): instance of %s got calls %r, mapping says exactly one call of %s'
                         % (ev, type(inst).__name__, [c[1] for c in calls], got[ev]))
                sp.check(calls[0][2] == (token,) and calls[0][2][0] is token and list(calls[0][3]) == ['key']
                         and calls[0][3]['key'] is token, 'args', 'dispatch(%r): arguments altered' % ev)
            else:
                sp.check(not calls, 'delivery', 'dispatch(%r): instance of %s does not listen but got %r'
                         % (ev, type(inst).__name__, [c[1] for c in calls]))
    sp.done()


# ------------------------------------------------------------------------------------------ late mappings
def _tagged(name, version):
    def method(self, *args, **kwargs):
        type(self).log.append((self, name, version, args, kwargs))
    method.__name__ = name
    return method


LATE_KINDS = ['instance-level __events__', 're-decorated class', 'method replaced on the class']


def h_late(sp, nnames=2, kinds=(0, 1, 2)):
    """Every registered handler is served through ITS OWN mapping.  A class K is created on this path (so no
    process-wide state can know it), instance x is registered on d1; then the mapping of the next instance y of the
    same class is made to differ (instance-level __events__ / K decorated again / a callback replaced on K) and y
    is registered on d1, on a second dispatcher d2, or on both.  Every event is dispatched on both dispatchers."""
    names = NAMES[:nnames]
    methods = NAMES + ['m1', 'm2']
    body = {m: _tagged(m, 1) for m in methods}
    body['log'] = []
    K = type('K', (object,), body)
    spec1 = [sp.pick(SPEC[:3], 'K.%s' % ev) for ev in names]
    map_x = {ev: (ev if s_ == 'positional' else s_[4:]) for ev, s_ in zip(names, spec1) if s_ != 'absent'}
    sp.assume(bool(map_x))
    event_handler(*[ev for ev in map_x if map_x[ev] == ev], **{ev: m for ev, m in map_x.items() if m != ev})(K)
    sp.note('class K decorated with %r' % (map_x,))
    d1, d2 = EventDispatcher(), EventDispatcher()
    x = K()
    d1.add_handler(x)
    sp.note('d1.add_handler(x)')
    kind = LATE_KINDS[sp.pick(list(kinds), 'kind')]
    version_y = {m: 1 for m in methods}         # which version of each method y has to be served through
    open_x = set()                              # events of x whose outcome the statement leaves open
    if kind == 'instance-level __events__':
        spec2 = [sp.pick(SPEC, 'y.%s' % ev) for ev in names]
        map_y = {ev: (ev if s_ == 'positional' else s_[4:]) for ev, s_ in zip(names, spec2) if s_ != 'absent'}
        sp.assume(bool(map_y))
        y = K()
        y.__events__ = dict(map_y)
        sp.note('y = K(); y.__events__ = %r' % (map_y,))
        sp.cover('instance-level-events')
    elif kind == 're-decorated class':
        spec2 = [sp.pick(SPEC, 'K again.%s' % ev) for ev in names]
        extra = {ev: (ev if s_ == 'positional' else s_[4:]) for ev, s_ in zip(names, spec2) if s_ != 'absent'}
        sp.assume(bool(extra))
        event_handler(*[ev for ev in extra if extra[ev] == ev], **{ev: m for ev, m in extra.items() if m != ev})(K)
        map_y = dict(map_x)
        map_y.update(extra)
        open_x = {ev for ev in map_y if map_y.get(ev) != map_x.get(ev)}
        y = K()
        sp.note('K decorated again with %r; y = K()' % (extra,))
        sp.cover('redecorated')
    else:
        victim = sp.pick(sorted(set(map_x.values())), 'replaced-method')
        setattr(K, victim, _tagged(victim, 2))
        version_y[victim] = 2
        map_y = dict(map_x)
        open_x = {ev for ev, m in map_x.items() if m == victim}     # x: old or new function, not stated
        y = K()
        sp.note('K.%s replaced; y = K()' % victim)
        sp.cover('method-replaced')
    if map_y != map_x:
        sp.cover('mapping-differs')
        if set(map_y) - set(map_x):
            sp.cover('y-listens-to-more')
        if set(map_x) - set(map_y):
            sp.cover('y-listens-to-less')
        if any(map_y[ev] != map_x[ev] for ev in map_y if ev in map_x):
            sp.cover('y-renamed-callback')
    where = sp.pick(['d1', 'd2', 'd1 and d2'], 'y-registered-on')
    on = {'d1': {'x'}, 'd2': set()}
    for tag, d in (('d1', d1), ('d2', d2)):
        if tag in where:
            d.add_handler(y)
            on[tag].add('y')
            sp.note('%s.add_handler(y)' % tag)
    if 'd2' in where:
        sp.cover('second-dispatcher')

    def round_(when):
        for tag, d in (('d1', d1), ('d2', d2)):
            for ev in names + ['nobody']:
                del K.log[:]
                token = object()
                try:
                    d.dispatch(ev, token, key=token)
                except Exception as ex:     # noqa
                    sp.fail('dispatch-raises', '%s: %s.dispatch(%r) raised %r' % (when, tag, ev, ex))
                for who, inst, mapping in (('x', x, map_x), ('y', y, map_y)):
                    calls = [c for c in K.log if c[0] is inst]
                    what = '%s: %s.dispatch(%r): %s' % (when, tag, ev, who)
                    if who not in on[tag]:
                        sp.check(not calls, 'spurious-call', '%s is not registered there but got %r'
                                 % (what, [c[1] for c in calls]))
                        continue
                    if who == 'x' and ev in open_x:
                        sp.check(len(calls) <= 1, 'duplicate', '%s got %d calls' % (what, len(calls)))
                        continue
                    if ev not in mapping:
                        sp.check(not calls, 'spurious-call', '%s does not map this event (its mapping: %r) but got %r'
                                 % (what, mapping, [c[1] for c in calls]))
                        continue
                    sp.check(len(calls) == 1, 'missed' if not calls else 'duplicate',
                             '%s maps it to %s (its mapping: %r) and got %d calls' % (what, mapping[ev], mapping,
                                                                                      len(calls)))
                    _, mname, version, args, kwargs = calls[0]
                    sp.check(mname == mapping[ev], 'wrong-method', '%s maps it to %s but %s was called (its mapping: '
                             '%r)' % (what, mapping[ev], mname, mapping))
                    if who == 'y':
                        sp.check(version == version_y[mname], 'wrong-method', '%s was served through version %d of '
                                 'K.%s, but K.%s was at version %d when y was registered'
                                 % (what, version, mname, mname, version_y[mname]))
                    sp.check(args == (token,) and args[0] is token and list(kwargs) == ['key']
                             and kwargs['key'] is token, 'args', '%s: arguments altered' % what)
                    sp.cover('late-delivered')

    round_('after registering y')
    d1.remove_handler(x)
    on['d1'].discard('x')
    sp.note('d1.remove_handler(x)')
    sp.check(not d1.is_handler(x) and d1.is_handler(y) is ('y' in on['d1']) and d2.is_handler(y) is ('y' in on['d2']),
             'is_handler', 'is_handler wrong after removing x')
    round_('after removing x')
    sp.done()


HIST_TAGS = ['delivered', 'removed-during-dispatch', 'added-during-dispatch', 'nested-dispatch', 'double-add',
             'removed-before', 'two-listeners', 'nobody-listens', 'remove-unregistered',
             'cleared-registered-handlers']
KWNAMES = ('target', 'method', 'handler', 'sender', 'name', 'value', 'priority', 'first', 'default')
KW_REQ = ['delivered', 'two-listeners'] + ['kwarg-name-' + x for x in KWNAMES]
DOUBLE_REQ = ['delivered', 'double-add', 'dispatch-after-double-add', 'dispatch-after-double-add-and-one-remove',
              'readded-after-clear', 'cleared-registered-handlers']
TWIN_TAGS = ['two-twins-served', 'twin-added-next-to-registered-twin', 'twin-removed-next-to-registered-twin',
             'unregistered-twin-removed']
LATE_TAGS = ['instance-level-events', 'redecorated', 'method-replaced', 'mapping-differs', 'y-listens-to-more',
             'y-listens-to-less', 'y-renamed-callback', 'second-dispatcher', 'late-delivered']
HARNESSES = {
    # shape H (from the empty dispatcher) and shape I + >=2 operations
    'history': dict(fn=h_history, nontrivial=HIST_TAGS[1:7] + ['dispatch-after-active-dispatch'],
                    required=HIST_TAGS + ['dispatch-after-active-dispatch', 'readded-after-clear']),
    # shape I + one operation
    'state': dict(fn=h_history, nontrivial=HIST_TAGS[1:7], required=HIST_TAGS),
    'twins': dict(fn=h_twins, nontrivial=TWIN_TAGS, required=TWIN_TAGS),
    'late': dict(fn=h_late, nontrivial=['mapping-differs', 'method-replaced'], required=LATE_TAGS),
    'decor': dict(fn=h_decor, nontrivial=['override', 'extend', 'empty-decoration'],
                  required=['override', 'extend', 'empty-decoration', 'several-classes-listen']),
    'decor-mi': dict(fn=h_decor, nontrivial=['multiple-inheritance'],
                     required=['multiple-inheritance', 'empty-decoration', 'several-classes-listen']),
}

FLAVOUR_TAGS = ['delivered-to-bool-false', 'delivered-to-len-zero', 'delivered-to-equal-to-everything',
                'two-listeners', 'nested-dispatch', 'removed-during-dispatch', 'nobody-listens']
FULL_MENU = ('none', 'rm self', 'rm next', 'rm prev', 'add next', 'add prev', 'disp')

TIERS = {
    'quick': [
        ('history', dict(n=3, build=False, steps=3, orders=(0, 5))),
        ('state', dict(n=3, build=True, steps=1, pre=(0, 1, 2, 3), shapes=(0, 5)),
         {'required': HIST_TAGS + ['nested-dispatch-depth-3']}),
        ('state', dict(n=3, build=True, steps=1, pre=(1,), menu=('none', 'rm next', 'disp'), shapes=(5,),
                       flavours=(0, 1, 2, 3)), {'required': FLAVOUR_TAGS}),
        ('state', dict(n=3, build=True, steps=1, pre=(1,), menu=('none',), shapes=(3, 4), kwnames=KWNAMES),
         {'required': KW_REQ}),
        ('history', dict(n=2, build=True, steps=2, pre=(0, 2, 5), menu=('none', 'rm self'), shapes=(0,)),
         {'required': DOUBLE_REQ}),
        ('late', dict(nnames=2)),
        ('twins', dict(n=2, build=False, steps=3)),
        ('twins', dict(n=3, build=True, steps=1, pre=(0, 1, 3), shapes=(5,))),
        ('decor', dict(shape='chain3', nnames=2)),
        ('decor', dict(shape='siblings', nnames=2)),
        ('decor-mi', dict(shape='two-roots', nnames=2)),
        ('decor', dict(shape='chain2', nnames=3)),
    ],
    'thorough': [
        ('history', dict(n=3, build=False, steps=4)),
        ('state', dict(n=3, build=True, steps=1, orders=(0, 1, 2, 3, 4, 5))),
        ('state', dict(n=3, build=True, steps=1, menu=FULL_MENU, shapes=(0, 1, 2, 3, 4, 5)),
         {'required': HIST_TAGS + ['nested-dispatch-depth-3']}),
        ('state', dict(n=3, build=True, steps=1, pre=(0, 1, 3), shapes=(0, 5), flavours=(0, 1, 2, 3)),
         {'required': FLAVOUR_TAGS}),
        ('history', dict(n=3, build=True, steps=2, shapes=(0, 5), pre=(0, 2, 3), orders=(0, 5))),
        ('decor', dict(shape='chain3', nnames=2)),
        ('decor', dict(shape='siblings', nnames=2)),
        ('decor-mi', dict(shape='two-roots', nnames=2)),
        ('state', dict(n=3, build=True, steps=1, pre=(0, 1, 2), shapes=(3, 4, 5), kwnames=KWNAMES),
         {'required': KW_REQ}),
        ('history', dict(n=3, build=True, steps=2, pre=(0, 2, 5), menu=('none', 'rm self'), shapes=(0,)),
         {'required': DOUBLE_REQ}),
        ('late', dict(nnames=3)),
        ('twins', dict(n=3, build=False, steps=4)),
        ('twins', dict(n=3, build=True, steps=2, shapes=(5,))),
        ('decor-mi', dict(shape='diamond', nnames=2)),
        ('decor', dict(shape='chain3', nnames=3)),
    ],
}
BUDGET_S = {'quick': 240, 'thorough': 1800}

EXPLANATION = (
    'Bounded symbolic execution of the real EventDispatcher.add_handler / remove_handler / is_handler / dispatch '
    'and of the event_handler decorator.  Operation codes, handlers, event names, argument shapes, the action '
    'every callback performs (removing or adding handlers, dispatching another event) and the decoration of '
    'every class of a hierarchy are solver choices; the first positional argument is an unconstrained solver '
    'integer that must reach every callback as the same object.  Each dispatch() call, nested ones included, is '
    'compared with a set-based reference model; class mappings are re-read after every decoration.  The explorer '
    'visits every feasible path inside the bounds and z3 certifies that none was skipped.')
RULE = ('one evaluation = one feasible path (distinct by construction); non-trivial = a handler was removed or added '
        'from inside a callback, a nested dispatch ran, a double registration or a removal preceded a dispatch, two '
        'listeners were served, or a decoration overrode / extended an inherited mapping')
BOUNDS = {
    'quick': 'history: 3 handlers (classes HA, HB, HC(HA)), events e1,e2,unknown, ops add / remove / dispatch / clear(); H(3) from empty with 5 nested '
             'actions, 3 argument shapes, listener order h0<h1<h2 and its reverse; I: 4 registration histories per '
             'handler + 1 op with 5 nested actions, 2 shapes; nesting depth 3 (the third level dispatches an event without listeners or the outermost event again); I (all registered) + 1 op with every handler '
             'instance plain / __bool__ False / __len__ 0 / __eq__ always True (4^3 combinations, 3 actions, 1 shape).  '
             'keyword names: 1 op on the all-registered state with one keyword drawn from 9 plausible payload names; '
             'double add / clear: 2 handlers, histories never / added twice / added, clear(), added + 2 ops.  '
             'late mappings: a class created on the path, instance x registered, then the mapping of the next instance '
             'y differs (instance-level __events__ / class decorated again / callback replaced on the class; 2 event '
             'names), y on d1, d2 or both, all events on both dispatchers, again after removing x.  '
             'twins (equal and hash-equal handlers): 2 twins H(3), 3 twins I + 1 op.  '
             'decor: chain of 3, siblings, two roots '
             'over 2 event names; chain of 2 over 3 names; 4 decoration kinds per (class, name)',
    'thorough': 'history: H(4); I + 1 op under all 6 listener orders; I + 1 op with 7 nested actions and 6 shapes; '
                'I (3 histories per handler) + 2 ops (2 shapes, 2 listener orders); I (3 histories) + 1 op with the 4^3 '
                'instance flavours, 5 actions, 2 shapes; late mappings over 3 event names; twins: 3 twins H(4) and I + 2 ops.  decor: additionally the diamond '
                'over 2 names and the chain of 3 over 3 names',
}
ASSUMPTIONS = [
    'a handler removed or added while a dispatch is running (by a callback of that dispatch or of a nested one) may '
    'or may not be served by the dispatches in progress, but never twice and only through its mapped method',
    'with several bases only: own mappings present and winning, every event of the first decorated class in the MRO '
    'present, every inherited pair taken from one of the bases, no base altered (how two bases combine is not stated)',
    'a class without any mapping may lack __events__ altogether (read as the empty mapping); such classes are not '
    'registered (add_handler asserts the protocol)',
    'handlers stay alive during the whole history (weakness is C10); dispatching stays enabled (C04)',
    'clear() of the dispatcher is an operation of the history: afterwards nobody is registered and the same objects '
    'can be registered again like fresh ones; keyword arguments may carry any plausible payload name (target, method, '
    'handler, sender, name, value, priority, first, default) - only self and event_name, which dispatch itself cannot '
    'accept as keywords, stay out',
    'late mappings: a handler is served through the mapping it had when it was registered; for a handler registered '
    'BEFORE its class was decorated again or a callback was replaced on the class, the events whose mapping changed '
    'are left open (0 or 1 call), a handler registered afterwards must be served through the new mapping / function',
    'handler flavours: instances that are falsy (__bool__ False, __len__ 0) or equal to everything incl. None '
    '(__eq__ always True, with the per-handler hash constant, so two handlers never share a hash) are handlers like '
    'any other; handlers that are equal AND hash-equal to each other are exercised by the twins harness, with plain '
    'callbacks and identity-based expectations only (their listener order cannot be steered)',
    'where the dispatcher hashes its weak references by identity the listener order is established by trial on '
    'fresh handler objects (hb_util.steer, probe dispatches on scratch dispatchers); a later deviation is counted '
    '(cover tag listener-order-deviated), not fatal',
    'handler objects define __hash__ as a constant found at run time so that the listener set is iterated in the '
    'order the path asks for (harness/hb_util.py); the order is verified on every dispatch without interference',
    'callbacks with side effects are drawn for the first dispatch that has any; later dispatches of the same history '
    'have plain callbacks (keeps the decision tree independent of the order in which callbacks ran)',
]
OUTSIDE = ['nesting deeper than three dispatches (a callback of a dispatch dispatches, and a callback of that one dispatches again)', 'more than 3 handlers / 3 event names',
           'classes using __slots__', 'handlers whose __events__ is edited after registration']

TECHNIQUE = 'bounded symbolic execution (symx/z3) of dispatcher histories with nested actions, symbolic payload, listener-order control; decorator programs enumerated symbolically'
