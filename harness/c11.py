"""C11 — resource paths, shadowing and back-links stay consistent.

Shape H(L): L symbolic operations on a fresh root map, the full oracle after every operation.

operations (opcode, key components, value kind, targets are solver-chosen finite variables)
  set    `M[key] = value`   key = 1..depth components over the alphabet joined with '/',
                            value in {handle, empty map, pre-populated map, map with two-layer handles, map with three-layer handles},
                            M = root, or (via=True) a reachable sub-map with the remaining key
  nest   what DirectoryResourcePopulator does on a name conflict: `M.handles.maps.insert(0, {})` on the
         map holding a handle, then assign a fresh handle to the same path (the old one is shadowed)
  clear  `M.clear()` on the root or on any reachable sub-map
  (same=True, default) a set may also assign the very object that is stored under exactly this name right now
         (same object, same place: stored at one place only)
  (reinsert=True) a set may also store again an object that was stored earlier in the history and is stored
         nowhere now (displaced by a later assignment or dropped by clear); its whole subtree comes back with it

reference model: a tree  name -> ('h', handle) | Node ; Node.obj is the real map when the harness
created it and None for maps desper created implicitly for intermediate key parts.
"""
from desper.model import Handle, ResourceMap

PROPERTY = 'C11'

ALL_CLAUSES = ('lookup', 'backlink', 'clear')


class TokHandle(Handle):
    """Handle whose resource is a unique token."""

    def __init__(self, label):
        self.label = label

    def load(self):
        return ('resource', self.label, object())

    def __repr__(self):
        return '<H %s>' % self.label


class Node:
    """Model of a map."""

    def __init__(self, obj=None):
        self.obj = obj
        self.kids = {}          # name -> Node | TokHandle
        self.shadow = set()     # names under which a lower layer of `handles` holds a shadowed handle
        self.was_shared = False     # has had two owners at some point: its parent/key are not prescribed any more


MISSING = object()

FLAVOURS = ('falsy', 'empty', 'equal')
_flavoured = {}


def flavoured(base, flavour):
    """subclass of `base` whose INSTANCES have unusual truthiness / equality (identity is what counts):
    falsy: __bool__ False; empty: __len__ 0; equal: == everything, constant hash"""
    if flavour == 'plain':
        return base
    if (base, flavour) not in _flavoured:
        ns = {'falsy': {'__bool__': lambda self: False},
              'empty': {'__len__': lambda self: 0},
              'equal': {'__eq__': lambda self, other: True, '__ne__': lambda self, other: False,
                        '__hash__': lambda self: 7}}[flavour]
        _flavoured[(base, flavour)] = type(flavour.capitalize() + base.__name__, (base,), dict(ns))
    return _flavoured[(base, flavour)]



class Ctx:
    def __init__(self, flavour='plain'):
        self.n = 0
        self.flavour = flavour

    def handle(self):
        self.n += 1
        return flavoured(TokHandle, self.flavour)('h%d' % self.n)

    def map(self):
        return flavoured(ResourceMap, self.flavour)()


def make_value(sp, kind, cx):
    """returns (real value, model value, description)"""
    if kind == 0:
        h = cx.handle()
        return h, h, repr(h)
    if kind == 1:
        r = cx.map()
        return r, Node(r), 'ResourceMap()'
    if kind == 2:
        # pre-populated: handle 'a' and sub-map 'b'
        r = cx.map()
        h = cx.handle()
        sub = cx.map()
        r['a'] = h
        r['b'] = sub
        n = Node(r)
        n.kids['a'] = h
        n.kids['b'] = Node(sub)
        return r, n, "map{a: %r, b: map{}}" % h
    # kind 3: two-layer handles, built the way DirectoryResourcePopulator nests conflicting handles:
    # lower layer {a: h1, b: h0}, upper layer {a: h2}
    r = cx.map()
    h1, h0, h2 = cx.handle(), cx.handle(), cx.handle()
    r['a'] = h1
    r['b'] = h0
    r.handles.maps.insert(0, {})
    r['a'] = h2
    n = Node(r)
    n.kids['a'] = h2
    n.kids['b'] = h0
    n.shadow.add('a')
    if kind == 3:
        return r, n, 'layered map{a: %r over %r, b: %r (lower layer)}' % (h2, h1, h0)
    # kind 4: three layers (the third population of the same files): {a: h3} over {a: h2, b: h4} over {a: h1, b: h0}
    h3, h4 = cx.handle(), cx.handle()
    r['b'] = h4
    r.handles.maps.insert(0, {})
    r['a'] = h3
    n.kids['a'] = h3
    n.kids['b'] = h4
    n.shadow.add('b')
    return r, n, 'three-layer map{a: %r over %r over %r, b: %r (middle layer) over %r}' % (h3, h2, h1, h4, h0)


def model_set(root, comps, mval):
    cur = root
    for c in comps[:-1]:
        nxt = cur.kids.get(c)
        if not isinstance(nxt, Node):
            nxt = Node(None)            # implicit intermediate map (replaces a handle if there was one)
            cur.kids[c] = nxt
            cur.shadow.discard(c)       # a map over a name removes the handles of every layer
        cur = nxt
    cur.kids[comps[-1]] = mval
    if isinstance(mval, Node):
        cur.shadow.discard(comps[-1])


def model_lookup(root, comps):
    cur = root
    for c in comps:
        if not isinstance(cur, Node) or c not in cur.kids:
            return MISSING
        cur = cur.kids[c]
    return cur


def model_paths(root, kinds=(Node, TokHandle)):
    """all model-reachable (components, value) below the root, deterministic order."""
    out = []

    def rec(node, pre):
        for k in sorted(node.kids):
            v = node.kids[k]
            if isinstance(v, kinds):
                out.append((pre + (k,), v))
            if isinstance(v, Node):
                rec(v, pre + (k,))
    rec(root, ())
    return out


def all_keys(alphabet, depth):
    out = []
    level = [()]
    for _ in range(depth):
        level = [p + (a,) for p in level for a in alphabet]
        out.extend(level)
    return out


def real_walk(m, comps):
    """chained single-name `get` from the root; MISSING if a step is absent or not a map."""
    cur = m
    for c in comps:
        if not isinstance(cur, ResourceMap):
            return MISSING
        cur = cur.get(c, MISSING)
        if cur is MISSING:
            return MISSING
    return cur


def show(comps):
    return '/'.join(comps)


def oracle(sp, m, root, alphabet, depth, clauses, when):
    paths = set(all_keys(alphabet, depth))
    paths.update(p for p, _ in model_paths(root))
    shared_below = {i for i, w in slots(root).items() if len(w) > 1} or None
    for comps in sorted(paths):
        key = show(comps)
        exp = model_lookup(root, comps)
        if 'lookup' in clauses:
            try:
                g = m.get(key, MISSING)
            except Exception as ex:     # noqa
                sp.fail('lookup-raises', '%s: get(%r) raised %r' % (when, key, ex))
            try:
                r = m[key]
                raised = False
            except KeyError:
                r, raised = MISSING, True
            except Exception as ex:     # noqa
                sp.fail('lookup-raises', '%s: m[%r] raised %r' % (when, key, ex))
            sp.check((g is MISSING) == raised, 'get-default-iff-keyerror',
                     '%s: get(%r) %s its default but m[%r] %s' % (
                         when, key, 'returned' if g is MISSING else 'did not return', key,
                         'raised KeyError' if raised else 'returned a value'))
            # chained m[a][b][c]
            cur, craised = m, False
            for c in comps:
                if not isinstance(cur, ResourceMap):
                    cur, craised = MISSING, True
                    break
                try:
                    cur = cur[c]
                except KeyError:
                    cur, craised = MISSING, True
                    break
                except Exception as ex:     # noqa
                    sp.fail('lookup-raises', '%s: chained [] of %r raised %r at %r' % (when, key, ex, c))
            if exp is MISSING:
                sp.check(g is MISSING, 'latest-assignment-wins',
                         '%s: %r should denote nothing, get gives %r' % (when, key, g))
                sp.check(craised, 'composed-vs-chained',
                         '%s: chained [] for %r finds %r, nothing is stored there' % (when, key, cur))
            elif isinstance(exp, TokHandle):
                sp.check(g is exp, 'latest-assignment-wins',
                         '%s: %r should denote handle %r, get gives %r' % (when, key, exp, g))
                res = exp()
                sp.check(r is res, 'composed-vs-get',
                         '%s: m[%r] is not get(%r)()' % (when, key, key))
                sp.check(cur is res, 'composed-vs-chained',
                         '%s: chained [] for %r gives %r, m[%r] gives %r' % (when, key, cur, key, r))
                sp.cover('handle-read')
                if len(comps) >= 2:
                    sp.cover('deep-handle-read')
                if shared_below is not None and any(id(model_lookup(root, comps[:i])) in shared_below
                                                    for i in range(1, len(comps))):
                    sp.cover('alias-handle-read-through-shared-map')
            else:
                sp.check(isinstance(g, ResourceMap), 'latest-assignment-wins',
                         '%s: %r should denote a map, get gives %r' % (when, key, g))
                if exp.obj is not None:
                    sp.check(g is exp.obj, 'latest-assignment-wins',
                             '%s: %r should denote the map that was assigned, get gives %r' % (when, key, g))
                sp.check(r is g, 'composed-vs-get', '%s: m[%r] is not get(%r)' % (when, key, key))
                sp.check(cur is g, 'composed-vs-chained',
                         '%s: chained [] for %r gives %r, composed gives %r' % (when, key, cur, g))
    if 'lookup' in clauses:
        for comps, _ in [((), root)] + model_paths(root, kinds=(Node,)):
            real = real_walk(m, comps)
            if isinstance(real, ResourceMap):
                both = sorted(set(real.maps) & set(real.handles))
                sp.check(not both, 'handle-xor-map',
                         '%s: in map %r the names %r are a handle and a sub-map at once' % (when, show(comps), both))
    if 'backlink' in clauses:
        where = slots(root)
        later = []
        for comps, exp in model_paths(root):
            if len(where.get(id(exp), ())) > 1:
                sp.cover('shared-map-backlink-skipped')
                continue                # stored under two owners right now: .parent/.key are not prescribed
            holder = real_walk(m, comps[:-1])
            node = real_walk(m, comps)
            if holder is MISSING or node is MISSING:
                continue                # a lookup failure, reported by the 'lookup' clauses
            if isinstance(exp, Node) and exp.obj is None:
                sp.cover('implicit-map')
            if getattr(exp, 'was_shared', False) and \
                    getattr(exp, 'last_slot', None) != next(iter(where[id(exp)])):
                # formerly shared and the slot that attached it LAST is gone: the known finding's trigger.  (If the
                # surviving slot is the one that attached it last the link must simply be right: ordinary clauses.)
                later.append((comps, holder, node))
                continue
            if getattr(exp, 'was_shared', False):
                sp.cover('backlink-checked-last-attached-slot-survives')
            sp.check(node.parent is holder, 'backlink-parent',
                     '%s: node at %r (%s) has parent %r, not the map containing it' % (
                         when, show(comps), 'implicit map' if isinstance(exp, Node) and exp.obj is None
                         else type(node).__name__, node.parent))
            sp.check(node.key == comps[-1], 'backlink-key',
                     '%s: node at %r has key %r' % (when, show(comps), node.key))
        # last, because a known finding ends the path: nodes that have exactly ONE owner slot now but had two at
        # some earlier point of the history (their back-link is unambiguous again)
        for comps, holder, node in later:
            sp.cover('backlink-checked-after-unaliasing')
            if isinstance(node, Handle):
                sp.cover('backlink-checked-after-unaliasing-handle')
            sp.check(node.parent is holder and node.key == comps[-1], 'backlink-after-unaliasing',
                     '%s: the node at %r is stored at exactly one place now (it had two owners earlier) but '
                     'records parent %s, key %r' % (
                         when, show(comps), 'ok' if node.parent is holder else repr(node.parent), node.key),
                     was_shared=True)


def slots(root):
    """id(model value) -> set of (id(holder node), name) it is stored under (each map node visited once)"""
    out, seen = {}, set()

    def rec(node):
        if id(node) in seen:
            return
        seen.add(id(node))
        for k, v in node.kids.items():
            out.setdefault(id(v), set()).add((id(node), k))
            if isinstance(v, Node):
                rec(v)
    rec(root)
    return out


def subtree_ids(node):
    out = set()

    def rec(n):
        if id(n) in out:
            return
        out.add(id(n))
        for v in n.kids.values():
            if isinstance(v, Node):
                rec(v)
    rec(node)
    return out


def alias_candidates(root, comps):
    """map nodes already stored in the tree that may ALSO be stored at comps without creating a cycle:
    (model node, one of its paths), deterministic order"""
    deepest = root
    for c in comps[:-1]:
        nxt = deepest.kids.get(c) if isinstance(deepest, Node) else None
        if not isinstance(nxt, Node):
            break
        deepest = nxt
    here = model_lookup(root, comps)
    out, seen = [], set()
    for path, node in model_paths(root):
        if id(node) in seen or node is here:
            continue
        seen.add(id(node))
        if isinstance(node, Node) and id(deepest) in subtree_ids(node):
            continue                    # the target position lies inside that map
        out.append((node, path))        # a map or a handle that is stored elsewhere in the tree
    return out


def old_holder_shadow(root, comps):
    holder = model_lookup(root, comps[:-1])
    return isinstance(holder, Node) and comps[-1] in holder.shadow


def stored_in(holder, obj):
    """is obj stored directly in map `holder` (its `maps` or any layer of its `handles`)?"""
    if not isinstance(holder, ResourceMap):
        return False
    return (any(x is obj for x in holder.maps.values())
            or any(x is obj for layer in holder.handles.maps for x in layer.values()))


def h_tree(sp, L=2, alphabet=('a', 'b', ''), depth=3, values=(0, 1, 2, 3, 4), ops=('set', 'clear', 'nest'),
           via=False, clauses=ALL_CLAUSES, reinsert=False, same=True, flavours=('plain',), alias=False):
    assert not (alias and reinsert)
    alphabet = tuple(alphabet)
    clauses = tuple(clauses)
    ops = list(ops)
    # instance flavour of every handle and map of this history (the root included)
    flavour = sp.pick(list(flavours), 'flavour')
    cx = Ctx(flavour)
    m = cx.map()
    root = Node(m)
    if flavour != 'plain':
        sp.note('all handles and maps are %s instances' % flavour)
        sp.cover('flavour-' + flavour)
    # reinsert=True: objects that were stored earlier in this history and are stored nowhere now (displaced by
    # a later assignment, or dropped by clear()); a set op may store one of them again.  An object is never
    # stored at two places at once (outside the claim).  Entries: TokHandle | Node with .obj set.
    pool = []
    keys = all_keys(alphabet, depth)
    for step in range(L):
        when = 'step %d' % step
        op = sp.pick(ops, 'op%d' % step)
        try:
            if op == 'set':
                comps = sp.pick(keys, 'key%d' % step)
                options = [('new', k) for k in values]
                if reinsert:
                    options += [('re', i) for i in range(len(pool))]
                if same and model_lookup(root, comps) is not MISSING:
                    options.append(('same', None))      # the object stored under exactly this name right now
                cands = alias_candidates(root, comps) if alias else []
                options += [('alias', i) for i in range(len(cands))]
                how, kind = sp.pick(options, 'val%d' % step)
                j = 0
                if via and len(comps) > 1:
                    # resolve the first j components through existing maps, assign on that sub-map
                    splits = [0] + [i for i in range(1, len(comps))
                                    if isinstance(model_lookup(root, comps[:i]), Node)]
                    j = sp.pick(splits, 'via%d' % step)
                if how == 'new':
                    value, mval, desc = make_value(sp, kind, cx)
                elif how == 'alias':
                    # a map that is stored elsewhere in the tree gets a second owner (no cycle); only reads are
                    # checked for it afterwards
                    mval, at = cands[kind]
                    kind = None
                    mval.was_shared = True
                    if isinstance(mval, TokHandle):
                        value = mval
                        desc = 'the handle %r that is also stored at %r' % (mval, show(at))
                        sp.cover('alias-insert-handle')
                    else:
                        value = mval.obj if mval.obj is not None else real_walk(m, at)
                        if not isinstance(value, ResourceMap):
                            sp.assume(False)
                        mval.obj = value
                        desc = 'the map that is also stored at %r (names %r)' % (show(at), sorted(mval.kids))
                        sp.cover('alias-insert')
                        if mval.kids:
                            sp.cover('alias-insert-nonempty')
                elif how == 'same':
                    mval = model_lookup(root, comps)
                    if isinstance(mval, TokHandle):
                        value = mval
                    else:
                        value = mval.obj if mval.obj is not None else real_walk(m, comps)
                        if not isinstance(value, ResourceMap):
                            sp.assume(False)    # lookup already wrong; reported by the oracle earlier
                        mval.obj = value
                    desc = 'the very object already stored there (%s)' % (
                        repr(mval) if isinstance(mval, TokHandle) else 'map with names %r' % sorted(mval.kids))
                    sp.cover('reassign-same-object')
                    sp.cover('reassign-same-map' if isinstance(mval, Node) else 'reassign-same-handle')
                    if len(comps) > 1:
                        sp.cover('reassign-same-object-nested')
                else:
                    ent = pool.pop(kind)
                    mval = ent['mv']
                    value = mval if isinstance(mval, TokHandle) else mval.obj
                    kind = None
                    desc = 'the displaced %s (last stored under name %r)' % (
                        repr(mval) if isinstance(mval, TokHandle) else 'map with names %r' % sorted(mval.kids),
                        ent['name'])
                    sp.cover('reinsert')
                    # tags from the model only: the shape that matters is "same container, other name, not
                    # detached by clear() in between"
                    holder_now = model_lookup(root, comps[:-1])
                    if holder_now is ent['holder'] and ent['name'] != comps[-1] and ent['via'] == 'displaced':
                        sp.cover('reinsert-same-map-other-name')
                        if isinstance(mval, Node):
                            sp.cover('reinsert-map-same-map-other-name')
                old = model_lookup(root, comps)
                # what this assignment displaces: a handle turned into an intermediate map, or the old value
                displaced = []
                for i in range(1, len(comps)):
                    v = model_lookup(root, comps[:i])
                    if isinstance(v, TokHandle):
                        displaced.append((v, v, real_walk(m, comps[:i - 1]),
                                          model_lookup(root, comps[:i - 1]), comps[i - 1]))
                if old is not MISSING and how != 'same':
                    real_old = old if isinstance(old, TokHandle) else (old.obj if old.obj is not None else real_walk(m, comps))
                    displaced.append((old, real_old, real_walk(m, comps[:-1]),
                                      model_lookup(root, comps[:-1]), comps[-1]))
                # does the assignment or an intermediate replace a handle / a map of the other kind?
                for i in range(1, len(comps)):
                    if isinstance(model_lookup(root, comps[:i]), TokHandle):
                        sp.cover('intermediate-over-handle')
                if isinstance(old, TokHandle) and isinstance(mval, Node):
                    sp.cover('map-over-handle')
                    if old_holder_shadow(root, comps):
                        sp.cover('map-over-layered-handle')
                if isinstance(old, Node) and isinstance(mval, TokHandle):
                    sp.cover('handle-over-map')
                    if old.kids:
                        sp.cover('subtree-replaced')
                if alias:
                    sh = {i for i, w in slots(root).items() if len(w) > 1}
                    if how != 'alias' and any(id(model_lookup(root, comps[:i])) in sh for i in range(1, len(comps))):
                        sp.cover('alias-set-through-shared-map')
                target = m
                if j:
                    target = real_walk(m, comps[:j])
                    if not isinstance(target, ResourceMap):
                        sp.assume(False)        # lookup already wrong; reported by the oracle earlier
                    sp.cover('set-via-submap')
                sp.note('%sm[%r] = %s' % ('(sub-map %r of m) ' % show(comps[:j]) if j else '',
                                          show(comps[j:]), desc))
                target[show(comps[j:])] = value
                model_set(root, comps, mval)
                mval.last_slot = (id(model_lookup(root, comps[:-1])), comps[-1])     # the slot that attached it last
                for mv, real_obj, holder, holder_node, name in displaced:
                    # eligible for re-insertion only if really stored nowhere (a handle that was visible from a
                    # lower layer stays stored there when a new handle shadows it)
                    if reinsert and isinstance(real_obj, (ResourceMap, Handle)) and not stored_in(holder, real_obj):
                        if isinstance(mv, Node):
                            mv.obj = real_obj
                        pool.append(dict(mv=mv, holder=holder_node, name=name, via='displaced'))
                if kind == 3:
                    sp.cover('layered-value')
                if kind == 4:
                    sp.cover('three-layer-value')
            elif op == 'nest':
                hp = model_paths(root, kinds=(TokHandle,))
                if not hp:
                    sp.assume(False)
                comps, h = sp.pick(hp, 'nest%d' % step)
                holder = real_walk(m, comps[:-1])
                if not isinstance(holder, ResourceMap):
                    sp.assume(False)
                new = cx.handle()
                sp.note('nest: (map %r).handles.maps.insert(0, {}); m[%r] = %r   (shadows %r)' % (
                    show(comps[:-1]), show(comps), new, h))
                holder.handles.maps.insert(0, {})
                m[show(comps)] = new
                model_set(root, comps, new)
                model_lookup(root, comps[:-1]).shadow.add(comps[-1])
                sp.cover('nest')
            else:
                mp = [((), root)] + model_paths(root, kinds=(Node,))
                comps, node = sp.pick(mp, 'clr%d' % step)
                target = real_walk(m, comps)
                if not isinstance(target, ResourceMap):
                    sp.assume(False)
                # every node stored directly in the map right now: the sub-maps and the handles of ALL layers of
                # the public ChainMap `handles` (a shadowed handle of a lower layer was stored in this map under
                # that name too); every value the harness assigns is a fresh object, so none is stored elsewhere
                kids = [(k, kid, 'sub-map') for k, kid in sorted(target.maps.items())]
                seen_names = set()
                for li, layer in enumerate(target.handles.maps):
                    for k, kid in sorted(layer.items()):
                        shadowed = k in seen_names
                        kids.append((k, kid, 'shadowed handle (layer %d)' % li if shadowed else 'handle'))
                    seen_names.update(layer)
                if node.shadow:                 # from the model, so that the tag does not depend on the code
                    sp.cover('clear-with-shadowed-handle')
                shared_now = {i for i, w in slots(root).items() if len(w) > 1}
                skip = {id(target.maps.get(k)) for k, v in node.kids.items()
                        if isinstance(v, Node) and (id(v) in shared_now or v.was_shared)}
                skip |= {id(v) for v in node.kids.values()
                         if isinstance(v, TokHandle) and (id(v) in shared_now or getattr(v, 'was_shared', False))}
                if id(node) in shared_now:
                    sp.cover('alias-clear-shared-map')
                sp.note('(map %r).clear()' % show(comps))
                target.clear()
                if node.kids:
                    sp.cover('clear-nonempty')
                if comps:
                    sp.cover('clear-submap')
                if reinsert:
                    for k in sorted(node.kids):
                        mv = node.kids[k]
                        if isinstance(mv, TokHandle):
                            real_obj = mv
                        else:
                            real_obj = next((kid for kk, kid, what in kids if kk == k and what == 'sub-map'), None)
                        if real_obj is not None:
                            if isinstance(mv, Node):
                                mv.obj = real_obj
                            pool.append(dict(mv=mv, holder=node, name=k, via='cleared'))
                node.kids = {}
                node.shadow = set()
                if 'clear' in clauses:
                    sp.check(len(target.maps) == 0 and len(target.handles) == 0, 'clear-leaves-nothing',
                             '%s: after clear() of map %r: maps has %d names, handles has %d names (%s)' % (
                                 when, show(comps), len(target.maps), len(target.handles),
                                 sorted(target.handles)))
                    for a in sorted(set(alphabet) | {k for k, _, _ in kids}):
                        sp.check(target.get(a, MISSING) is MISSING, 'clear-leaves-nothing',
                                 '%s: after clear() of map %r name %r is still reachable' % (
                                     when, show(comps), a))
                    for k, kid, what in kids:
                        if id(kid) in skip:
                            continue            # also stored under another owner: .parent is not prescribed
                        sp.check(kid.parent is None, 'clear-detaches',
                                 '%s: former child %r (%s, %r) of cleared map %r still has parent %r' % (
                                     when, k, what, kid, show(comps), kid.parent))
                        sp.check(kid.key is None, 'clear-detaches',
                                 '%s: former child %r (%s, %r) of cleared map %r still has key %r' % (
                                     when, k, what, kid, show(comps), kid.key))
        except Exception as ex:         # noqa  (engine control flow is BaseException)
            sp.fail('op-raises', '%s: operation raised %r' % (when, ex))
        oracle(sp, m, root, alphabet, depth, clauses, when)
    sp.done()


_COVERS = ['handle-read', 'deep-handle-read', 'implicit-map', 'intermediate-over-handle', 'map-over-handle',
           'handle-over-map', 'subtree-replaced', 'layered-value', 'nest', 'clear-nonempty', 'clear-submap',
           'set-via-submap', 'clear-with-shadowed-handle', 'reinsert', 'reinsert-same-map-other-name', 'reassign-same-object',
           'map-over-layered-handle', 'three-layer-value']

_REQ = ['handle-read', 'deep-handle-read', 'map-over-handle', 'handle-over-map', 'layered-value',
        'reassign-same-handle', 'reassign-same-map', 'reassign-same-object-nested']

HARNESSES = {
    # full oracle, sharded over the process pool
    'tree': dict(fn=h_tree, nontrivial=_COVERS,
                 required=_REQ + ['clear-nonempty', 'implicit-map', 'nest', 'clear-with-shadowed-handle']),
    # the same function on a small universe with one clause family switched on, explored in-process before
    # the pool starts: each family reports its own counterexample even when another family fails too
    'focus': dict(fn=h_tree, nontrivial=_COVERS, required=['layered-value', 'three-layer-value', 'handle-over-map', 'map-over-handle', 'reassign-same-handle',
                            'reassign-same-map'],
                  split=False),
    # 'tree' with via=True (assignment through a reachable sub-map); only the vacuity requirement differs
    'via': dict(fn=h_tree, nontrivial=_COVERS,
                required=_REQ + ['clear-nonempty', 'implicit-map', 'nest', 'set-via-submap',
                                 'clear-with-shadowed-handle']),
    # 'focus' for the clear clause family: a map holding a shadowed same-named handle must get cleared
    'focus-clear': dict(fn=h_tree, nontrivial=_COVERS, split=False,
                        required=['layered-value', 'three-layer-value', 'clear-nonempty', 'clear-with-shadowed-handle']),
}

_REINS_REQ = ['handle-read', 'deep-handle-read', 'map-over-handle', 'handle-over-map', 'implicit-map', 'reinsert',
              'reassign-same-handle', 'reassign-same-map',
              'reinsert-same-map-other-name', 'reinsert-map-same-map-other-name', 'clear-nonempty']

_ALIAS_REQ = ['backlink-checked-last-attached-slot-survives', 'backlink-checked-after-unaliasing', 'backlink-checked-after-unaliasing-handle', 'alias-insert-handle',
              'alias-insert', 'alias-insert-nonempty', 'alias-handle-read-through-shared-map',
              'alias-set-through-shared-map', 'shared-map-backlink-skipped', 'handle-read', 'deep-handle-read',
              'map-over-handle', 'handle-over-map', 'implicit-map', 'alias-clear-shared-map']
_FLAV_REQ = ['flavour-falsy', 'flavour-empty', 'flavour-equal', 'handle-read', 'deep-handle-read', 'map-over-handle',
             'handle-over-map', 'layered-value', 'clear-nonempty', 'reassign-same-handle', 'reassign-same-map',
             'clear-with-shadowed-handle']

_SMALL = dict(L=2, alphabet=['a', 'b'], depth=2)
TIERS = {
    'quick': [
        ('focus', dict(_SMALL, clauses=['backlink'])),
        ('focus-clear', dict(_SMALL, clauses=['clear'])),
        ('focus', dict(_SMALL, clauses=['lookup'], ops=['set', 'nest'])),
        ('tree', dict(L=2, alphabet=['a', 'b', ''], depth=3)),
        ('tree', dict(L=3, alphabet=['a', 'b'], depth=2, values=[0, 1, 2], ops=['set', 'clear'], reinsert=True),
         {'required': _REINS_REQ}),
        ('tree', dict(L=2, alphabet=['a', 'b'], depth=2, flavours=FLAVOURS), {'required': _FLAV_REQ}),
        ('tree', dict(L=3, alphabet=['a', 'b'], depth=2, values=[0, 2], ops=['set', 'clear'], same=False, alias=True),
         {'required': _ALIAS_REQ}),
    ],
    'thorough': [
        ('focus', dict(_SMALL, clauses=['backlink'])),
        ('focus-clear', dict(_SMALL, clauses=['clear'])),
        ('focus', dict(_SMALL, clauses=['lookup'], ops=['set', 'nest'])),
        ('via', dict(L=2, alphabet=['a', 'b', ''], depth=3, via=True)),
        ('tree', dict(L=3, alphabet=['a', ''], depth=3)),
        ('tree', dict(L=3, alphabet=['a', 'b', ''], depth=2)),
        ('tree', dict(L=3, alphabet=['a', 'b', ''], depth=2, reinsert=True), {'required': _REINS_REQ + ['nest']}),
        ('via', dict(L=4, alphabet=['a', 'b'], depth=2, values=[0, 2], ops=['set'], via=True, reinsert=True),
         {'required': _REINS_REQ[:-1] + ['set-via-submap']}),
        ('tree', dict(L=3, alphabet=['a', 'b', ''], depth=3, values=[0, 3])),
        ('tree', dict(L=3, alphabet=['a', 'b'], depth=2, flavours=FLAVOURS, reinsert=True),
         {'required': _FLAV_REQ + ['reinsert', 'nest', 'implicit-map']}),
        ('tree', dict(L=3, alphabet=['a', 'b'], depth=2, alias=True), {'required': _ALIAS_REQ + ['nest', 'layered-value']}),
        ('tree', dict(L=4, alphabet=['a', 'b'], depth=2, values=[0, 2], ops=['set'], same=False, alias=True),
         {'required': _ALIAS_REQ[:-1]}),
        ('via', dict(L=4, alphabet=['a'], depth=2, via=True)),
    ],
}
BUDGET_S = {'quick': 300, 'thorough': 1500}

EXPLANATION = (
    'Bounded symbolic execution of the real ResourceMap code: every operation of a history (opcode, key '
    'components, value kind, sub-map target) is a finite-domain solver variable; after each operation a tree '
    'reference model is compared with the map through get / [] / chained [] on every path of the alphabet and '
    'on every model-reachable path, the parent/key back-links of all reachable nodes are checked, and after '
    'clear() the emptiness of maps/handles and the detachment of the former children.  z3 decides every fork; '
    'the explorer visits every feasible path inside the bounds.  The "focus" entries run the same function on a '
    'small universe with a single clause family enabled so that independent defects are reported separately.')
RULE = ('one evaluation = one feasible path of the decision tree (distinct operation histories by construction); '
        'non-trivial = the history replaced a handle by a map or a map by a handle, created an implicit map, '
        'used a layered map, nested a handle, cleared a non-empty map or read a handle at depth >= 2')
BOUNDS = {
    'quick': "focus: names a,b, keys of 1-2 components, 2 ops; tree: names a,b,'' (empty component), keys of 1-3 "
             "components, values {handle, empty map, map{a: handle, b: map}, map with two-layer handles, map with three-layer handles}, "
             "ops {set, nest, clear of root or any reachable sub-map}, all histories of 2 ops; re-insertion: names a,b, "
             "keys of 1-2 components, values {handle, empty map, pre-populated map, any displaced object}, "
             "ops {set, clear}, all histories of 3 ops; instance flavours falsy / empty / all-equal for every handle and "
             "map: names a,b, keys of 1-2 components, all values and ops, 2 ops; shared sub-map: names a,b, depth 2, "
             "values {handle, pre-populated map, a map already stored elsewhere}, ops {set, clear}, 3 ops",
    'thorough': "as quick plus: 2 ops with assignment through any reachable sub-map (via); names a,'' depth 3: "
                "all histories of 3 ops; names a,b,'' depth 2: 3 ops; names a,b,'' depth 3 with values {handle, layered map}: 3 ops; "
                "name a depth 2 with via: 4 ops; re-insertion of displaced objects: names a,b,'' depth 2 all ops: 3 ops; "
                "names a,b depth 2, values {handle, pre-populated map, displaced}, set with via: 4 ops; the three instance flavours: names a,b depth 2, all ops incl. re-insertion, 3 ops",
}
ASSUMPTIONS = [
    'flavour entries: all handles and maps of a history are instances of subclasses that are falsy (__bool__ '
    'False), empty (__len__ 0) or equal to everything (__eq__ True, constant __hash__); the oracle is the same, '
    'it only ever compares identities',
    'aliasing entries (alias=True): a set may store a map or a handle that is already stored elsewhere in the tree '
    'under a second owner / second name (never creating a cycle); get / [] / chained [] through both owners must agree with the model '
    'after every operation; parent/key of a map are not checked while it has two owners (not fixed by the '
    'statement); once it is back to exactly one owner slot they are checked: with the ordinary clauses if that '
    'slot is the one that attached it last, else under the separate clause '
    'backlink-after-unaliasing (known finding C11-backlink-after-unaliasing: the link still names the owner that '
    'attached it last); detachment by clear() of children that ever had two owners is not checked',
    'every assigned value is a fresh object, or the very object already stored under exactly that name in that map '
    '(re-assignment in place), or (reinsert entries) an object stored earlier in the history that is '
    'stored nowhere when it is assigned again: displaced by a later assignment or dropped by clear(); an object is '
    'never stored at two places at once (outside the claim)',
    'layered handles are produced the way DirectoryResourcePopulator does it: handles.maps.insert(0, {}) on the '
    'public ChainMap, then an ordinary assignment',
    '"detaches its former direct children": every node stored directly in the map when clear() is called - '
    'the sub-maps in `maps` and the handles of all layers of `handles.maps`, shadowed ones included - must have '
    'parent None and key None afterwards',
    'back-links of nodes that were replaced and are no longer reachable are not checked',
    'the identity of implicitly created intermediate maps is not prescribed, only that they are maps with '
    'correct content and back-links',
    'get is called with an explicit default sentinel; the value of the implicit default is not checked',
]
OUTSIDE = ['back-links of a map stored at two places, the same handle stored at two places, cyclic trees', 'split_char reassigned / other separators',
           'non-string keys (assert)', 'histories longer than the bound, names outside the alphabet']

TECHNIQUE = 'bounded symbolic execution (symx/z3) of insertion/clear histories over resource trees, tree reference model'
