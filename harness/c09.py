"""C09 — Coroutine lifecycle: state, kill, restart and promise are coherent.

Shape H(L): every sequence of L operations  start(g) | kill(g) (through the processor or through a promise)
| process(1)  over G generator slots, from a fresh CoroutineProcessor, followed by a fixed epilogue of
flushing process calls.  The generator bodies are code of this module: at every step they (a) report to the
reference model, (b) query the state of every generator from inside, (c) may perform one pre-bounded
*inside action* - start / kill / kill-then-start of any generator including themselves - and (d) draw
their next item: yield None | yield 1 | yield 2 | return a value.  Items and inside actions are drawn
lazily (an n-way fork when the step executes), so the tree contains exactly the scripts that matter.

Reference model (the state machine of the statement, nothing about desper's queues):
  alive   started and neither killed nor returned            -> ACTIVE / PAUSED, otherwise TERMINATED
  sched   'A' runnable | 'P' waiting (wait, acc)             -> PAUSED until the accumulated dt reaches the wait
  ran     advanced in the current process call               -> at most once; exactly once when it was runnable
                                                                at the beginning of the call and not killed before
  due     number of process calls by whose end a finished / killed generator must have been released
The model is updated *from inside the bodies* (they are harness code), so it never predicts the order in
which desper runs the coroutines of one frame; it only checks that every execution is admissible.

Release check: when a generator is due, the harness drops every strong reference it holds (the object and
its promises) and demands that a weak reference dies; the slot then continues with a fresh generator object
that carries on at the same script position (desper cannot know the old object any more).
"""
import gc
import weakref

from desper.logic.coroutines import CoroutineProcessor, CoroutineState

PROPERTY = 'C09'

T, PAUSED, ACTIVE = CoroutineState.TERMINATED, CoroutineState.PAUSED, CoroutineState.ACTIVE
ITEMS = (None, 1, 2, 'ret')
ITEMS_NONPOS = (None, 0, -1, 1, 2, 'ret')   # 0 and a negative number mean "next frame" exactly like None
RET_VALUES = (None, 0, False, '', (), 7, 'x')     # what a body may return (falsy non-None values included)
PERMS3 = [(0, 1, 2), (0, 2, 1), (1, 0, 2), (1, 2, 0), (2, 0, 1), (2, 1, 0)]


class Slot:
    def __init__(self, name):
        self.name = name
        self.steps = 0          # body steps executed so far (script position)
        self.alive = False
        self.sched = 'A'
        self.wait = self.acc = 0
        self.ran = self.required = self.optional = False
        self.due = None
        self.held = False       # desper may legitimately still reference the current object
        self.finished = False   # the body has returned
        self.exhausted = False  # ... and the current generator *object* is the one that returned
        self.promise = None
        self.old = []
        self.exp_value = None
        self.value_open = False
        self.forced = []        # items the body must yield first (built prefix)

    def exp_state(self):
        if not self.alive:
            return T
        return ACTIVE if self.sched == 'A' else PAUSED


class Ctx:
    pass


def same_value(got, exp):
    """The promise must hold the returned object: identity for the singletons, type + equality otherwise
    (0 == False == 0.0, so equality alone would not do)."""
    if exp is None or exp is True or exp is False:
        return got is exp
    return type(got) is type(exp) and got == exp


def h_life(sp, G=2, L=4, K=2, inside=1, outside_routes=True, nonpos=False, prefix_waits=None, ret_choice=False):
    """nonpos: bodies may also yield 0 and -1.  prefix_waits: three distinct positive waits; the history then
    starts with a built prefix  start(a) start(b) start(c) process(1)  in which the three coroutines yield a
    solver-chosen permutation of these waits (all PAUSED, every shape of a three-entry wait heap), followed by
    the L free operations.  ret_choice: the value a body returns is a solver choice among RET_VALUES (7-way fork
    per return); otherwise it is taken from RET_VALUES in rotation (no fork, every configuration still meets
    every value)."""
    items = ITEMS_NONPOS if nonpos else ITEMS
    _st = CoroutineState
    sp.check(len({_st.ACTIVE, _st.PAUSED, _st.TERMINATED}) == 3 and _st.ACTIVE is not _st.PAUSED
             and _st.PAUSED is not _st.TERMINATED and _st.ACTIVE is not _st.TERMINATED, 'states-distinct',
             'ACTIVE, PAUSED and TERMINATED are not three different states')
    flush = 3 if prefix_waits is None else max(prefix_waits) + 2    # >= longest wait + 1
    H = Ctx()
    H.sp = sp
    H.proc = proc = CoroutineProcessor()
    H.slots = slots = [Slot('abc'[i]) for i in range(G)]
    H.gens = gens = {}
    H.in_frame = False
    H.frame = 0
    H.inside_left = inside
    H.used = 0      # slots 0..used-1 have been started at least once; the others are indistinguishable
    H.epilogue = False
    H.prefix = False
    H.K = K

    def targets():
        """Symmetry reduction: generators that were never started are interchangeable (fresh objects, equal
        model state, scripts drawn lazily), so an operation may address the started ones and the first
        never-started one only."""
        return min(G, H.used + 1)

    # ------------------------------------------------------------------ observations
    def sync_exhausted(s):
        """An exhausted generator object that was started again is consumed silently (next() raises
        StopIteration at once, none of our code runs).  While its frame is in progress desper may or may not
        have reached it yet: ask, and accept both."""
        if H.in_frame and s.alive and s.exhausted and not s.ran and (s.required or s.optional):
            if proc.state(gens[s.name]) == T:
                s.alive, s.due, s.ran = False, 2, True
                s.exp_value, s.value_open = None, False
                s.required = s.optional = False
                sp.cover('exhausted-object-consumed')

    def observe(when, types=False):
        for s in slots:
            sync_exhausted(s)
            exp = s.exp_state()
            try:
                st = proc.state(gens[s.name])
            except Exception as ex:     # noqa
                sp.fail('state-raises', '%s: state(%s) raised %r' % (when, s.name, ex))
            sp.check(st == exp, 'state', '%s: state(%s) is %s, expected %s' % (
                when, s.name, getattr(st, 'name', st), exp.name), at=('inside' if H.in_frame else 'outside'))
            for p in ([s.promise] if s.promise is not None else []) + s.old:
                sp.check(p.state == exp, 'promise-state', '%s: a promise of %s reports %s, expected %s' % (
                    when, s.name, getattr(p.state, 'name', p.state), exp.name))
            if s.promise is not None and not s.value_open:
                sp.check(same_value(s.promise.value, s.exp_value), 'promise-value',
                         '%s: promise of %s holds %r, expected %r' % (when, s.name, s.promise.value, s.exp_value))
        if types:
            for bad in (None, 3, body):
                for fname in ('start', 'kill', 'state'):
                    try:
                        getattr(proc, fname)(bad)
                    except TypeError:
                        continue
                    except Exception as ex:     # noqa
                        sp.fail('type-error', '%s: %s(%r) raised %r instead of TypeError' % (when, fname, bad, ex))
                    sp.fail('type-error', '%s: %s(%r) did not raise TypeError' % (when, fname, bad))

    # ------------------------------------------------------------------ start / kill with the model's verdict
    def do_start(s, who):
        sync_exhausted(s)
        ok = not s.alive
        sp.note('%s start(%s)%s' % (who, s.name, '' if ok else '   [expect ValueError]'))
        try:
            p = proc.start(gens[s.name])
        except ValueError:
            sp.check(not ok, 'start-raises', '%s: start(%s) raised ValueError although %s is not running' % (
                who, s.name, s.name), at=('inside' if H.in_frame else 'outside'))
            sp.cover('start-running-ValueError')
            return
        except Exception as ex:     # noqa
            sp.fail('start-raises', '%s: start(%s) raised %r' % (who, s.name, ex))
        sp.check(ok, 'start-accepted', '%s: start(%s) accepted a running generator' % (who, s.name))
        sp.check(p.generator is gens[s.name] and p.processor is proc, 'promise-fields',
                 'start returned a promise for another generator / processor')
        if s.held and not s.finished:       # killed, and desper has not yet had to let go of it
            sp.cover('restart-before-flush')
            if s.sched == 'P':
                sp.cover('restart-killed-waiter')
        elif s.steps and not s.finished:
            sp.cover('restart-after-flush')
        if s.finished:
            sp.cover('restart-finished')
        if s.promise is not None:
            s.old.append(s.promise)
        s.promise = p
        s.exp_value, s.value_open = None, False     # nothing has been returned yet: the initial None
        s.alive, s.held, s.due, s.sched = True, True, None, 'A'
        H.used = max(H.used, slots.index(s) + 1)
        if H.in_frame:
            s.required = False
            s.optional = not s.ran

    def do_kill(s, who, via_promise=False):
        sync_exhausted(s)
        ok = s.alive
        route = s.promise if (via_promise and s.promise is not None) else None
        sp.note('%s %s(%s)%s' % (who, 'promise.kill' if route is not None else 'kill', s.name,
                                 '' if ok else '   [expect ValueError]'))
        try:
            if route is not None:
                route.kill()
                sp.cover('kill-via-promise')
            else:
                proc.kill(gens[s.name])
        except ValueError:
            sp.check(not ok, 'kill-raises', '%s: kill(%s) raised ValueError although %s is running' % (
                who, s.name, s.name), at=('inside' if H.in_frame else 'outside'))
            sp.cover('kill-not-running-ValueError')
            return
        except Exception as ex:     # noqa
            sp.fail('kill-raises', '%s: kill(%s) raised %r' % (who, s.name, ex))
        sp.check(ok, 'kill-accepted', '%s: kill(%s) accepted a generator that is not running' % (who, s.name))
        s.alive = False
        if s.sched == 'A':
            sp.cover('kill-active')
            if H.in_frame and s.required and not s.ran:
                s.due = 1           # it would have run later in this very frame
            else:
                s.due = 2 if H.in_frame else 1
        else:
            sp.cover('kill-paused')
            s.due = None            # set when its wait elapses
        s.required = s.optional = False

    # ------------------------------------------------------------------ the coroutine bodies
    def step(s):
        """One body step of slot s; returns ('yield', v) or ('ret', v)."""
        sp.check(H.in_frame, 'ran-outside-process', '%s executed outside process()' % s.name)
        sp.check(s.alive, 'ran-after-kill', 'frame %d: code of %s ran although it had been killed and not '
                 'started again' % (H.frame, s.name))
        sp.check(s.sched == 'A', 'ran-while-paused', 'frame %d: %s ran before its wait elapsed' % (H.frame, s.name))
        sp.check(not s.ran, 'ran-twice', 'frame %d: %s advanced twice in one process call' % (H.frame, s.name))
        s.ran = True
        s.optional = False
        who = 'frame %d, %s step %d:' % (H.frame, s.name, s.steps)
        if s.finished:              # a fresh object standing in for a generator that has already returned
            sp.note(who + ' (already finished) returns None')
            s.alive, s.due, s.exhausted = False, 2, True
            s.exp_value, s.value_open = None, False
            return ('ret', None)
        observe(who)
        # inside action
        if H.inside_left > 0 and not H.epilogue and not H.prefix:
            n = targets()
            act = sp.choose(1 + 3 * n, 'act.%s.%d' % (s.name, s.steps))
            if act:
                H.inside_left -= 1
                kind, t = divmod(act - 1, n)
                t = slots[t]
                tag = ('self' if t is s else 'other')
                if kind == 0:
                    do_start(t, who)
                    sp.cover('inside-start-' + tag)
                elif kind == 1:
                    do_kill(t, who)
                    sp.cover('inside-kill-' + tag)
                else:
                    do_kill(t, who)
                    do_start(t, who)
                    sp.cover('inside-restart-' + tag)
                observe(who + ' after the inside action')
        # item
        if s.forced:
            item = s.forced.pop(0)
        elif H.epilogue or s.steps >= H.K:
            item = 'ret'
        else:
            item = items[sp.choose(len(items), 'item.%s.%d' % (s.name, s.steps))]
        s.steps += 1
        sp.note('%s %s' % (who, 'returns' if item == 'ret' else 'yields %r' % (item,)))
        if item == 'ret':
            if ret_choice and not H.epilogue:
                rv = RET_VALUES[sp.choose(len(RET_VALUES), 'ret.%s' % s.name)]
            else:
                rv = RET_VALUES[(slots.index(s) + s.steps + H.frame) % len(RET_VALUES)]
            sp.note('%s    value %r' % (who, rv))
            s.finished = s.exhausted = True
            if s.alive:
                s.alive = False
                s.exp_value, s.value_open = rv, False
                sp.cover('finish-value')
                if rv is not None and not rv:
                    sp.cover('falsy-return-value')
                elif rv is None:
                    sp.cover('none-return-value')
            else:
                s.value_open = True     # killed during its last step: the statement does not say
            s.sched, s.due = 'A', 2
            return ('ret', rv)
        if item is not None and item > 0:
            s.sched, s.wait, s.acc = 'P', item, 0
            if not s.alive:
                s.due = None            # killed during this step: it would next run when the wait elapses
        elif item is not None:
            # zero / negative: "next frame"; the coroutine stays ACTIVE
            sp.cover('yield-zero' if item == 0 else 'yield-negative')
        return ('yield', item)

    def body(s):
        while True:
            kind, v = step(s)
            if kind == 'ret':
                return v
            yield v

    for s in slots:
        gens[s.name] = body(s)

    # ------------------------------------------------------------------ frames
    def probe(s):
        """s must have been released: drop our references, the object has to die."""
        wr = weakref.ref(gens.pop(s.name))
        s.promise, s.old = None, []
        if wr() is not None:
            gc.collect()
        sp.check(wr() is None, 'released', 'after frame %d: %s generator %s is still referenced by the processor' % (
            H.frame, 'finished' if s.finished else 'killed', s.name), finished=s.finished)
        sp.cover('released-finished' if s.finished else 'released-killed')
        gens[s.name] = body(s)
        s.held, s.due, s.sched, s.exhausted = False, None, 'A', False

    def frame(dt):
        H.frame += 1
        for s in slots:
            s.ran = s.optional = False
            if s.sched == 'P' and s.held:
                s.acc += dt
                if s.acc >= s.wait:
                    s.sched = 'A'
                    if s.alive:
                        sp.cover('wait-elapsed')
                    else:
                        s.due = 1       # a killed waiter would have run in this frame
            s.required = s.alive and s.sched == 'A'
        sp.note('process(%r)   [frame %d]' % (dt, H.frame))
        H.in_frame = True
        try:
            proc.process(dt)
        except Exception as ex:     # noqa  (engine control flow is BaseException)
            H.in_frame = False
            sp.fail('process-raises', 'frame %d: process raised %r' % (H.frame, ex))
        H.in_frame = False
        for s in slots:
            if s.alive and s.exhausted and not s.ran and (s.required or s.optional):
                # an exhausted generator object was started again: next() raises StopIteration at once, no
                # code of ours runs.  If it was only optional in this frame, ask desper whether it was consumed.
                if s.required or proc.state(gens[s.name]) == T:
                    s.alive, s.due, s.ran = False, 2, True
                    s.exp_value, s.value_open = None, False
                    sp.cover('exhausted-object-consumed')
            if s.required and not s.ran:
                sp.fail('not-advanced', 'frame %d: %s was runnable at the beginning of the process call and was '
                        'not killed, but its code did not run' % (H.frame, s.name))
            s.required = s.optional = False
        for s in slots:
            if not s.alive and s.held and s.due is not None:
                s.due -= 1
                if s.due <= 0:
                    probe(s)

    # ------------------------------------------------------------------ history
    observe('initially', types=True)
    if prefix_waits is not None:
        perm = PERMS3[sp.choose(len(PERMS3), 'perm')]
        H.prefix = True
        for s, k in zip(slots, perm):
            s.forced = [prefix_waits[k]]
            do_start(s, 'prefix:')
        frame(1)
        H.prefix = False
        observe('after the prefix')
        for s in slots:
            sp.check(s.sched == 'P' and s.alive, 'prefix', 'prefix did not leave %s waiting' % s.name)
    for i in range(L):
        n = targets()
        op = sp.choose(2 * n + 1, 'op%d' % i)
        who = 'op %d:' % i
        if op < n:
            do_start(slots[op], who)
        elif op < 2 * n:
            s = slots[op - n]
            via = False
            if s.promise is not None:
                via = bool(sp.choose(2, 'route%d' % i)) if (outside_routes and s.alive) else (i % 2 == 1)
            do_kill(s, who, via_promise=via)
        else:
            frame(1)
        observe('after ' + who.rstrip(':'), types=(i == L - 1))
    H.epilogue = True
    for _ in range(flush):
        frame(1)
        observe('epilogue frame %d' % H.frame)
    for s in slots:
        sp.check(not s.held, 'released', 'epilogue: %s still not released' % s.name)
    sp.done()


_NT = ['restart-before-flush', 'restart-killed-waiter', 'restart-after-flush', 'restart-finished', 'kill-active',
       'kill-paused', 'kill-via-promise', 'finish-value', 'wait-elapsed', 'released-finished', 'released-killed',
       'start-running-ValueError', 'kill-not-running-ValueError', 'exhausted-object-consumed',
       'inside-start-other', 'inside-kill-other', 'inside-kill-self', 'inside-restart-other',
       'inside-restart-self', 'inside-start-self']

_NT += ['falsy-return-value', 'none-return-value']
_NT_OUT = [t for t in _NT if not t.startswith('inside-')]
_NT_NONPOS = ['yield-zero', 'yield-negative']
_NT_HEAP = ['restart-before-flush', 'restart-killed-waiter', 'kill-paused', 'wait-elapsed', 'released-killed',
            'released-finished', 'finish-value', 'falsy-return-value', 'none-return-value', 'start-running-ValueError', 'kill-not-running-ValueError']

_NT_VALUES = ['finish-value', 'falsy-return-value', 'none-return-value', 'kill-active', 'released-finished']

HARNESSES = {
    'life': dict(fn=h_life, nontrivial=_NT, required=_NT),
    # the same function run without inside actions (longer histories): the inside-* tags cannot be required
    'life-outside': dict(fn=h_life, nontrivial=_NT_OUT, required=_NT_OUT),
    # ... with bodies that may also yield 0 and -1
    'life-nonpos': dict(fn=h_life, nontrivial=_NT + _NT_NONPOS, required=_NT + _NT_NONPOS),
    'life-nonpos-outside': dict(fn=h_life, nontrivial=_NT_OUT + _NT_NONPOS, required=_NT_OUT + _NT_NONPOS),
    # ... after the built prefix with three waiters of distinct waits
    'life-heap': dict(fn=h_life, nontrivial=_NT_HEAP, required=_NT_HEAP),
    # ... with the returned value as an explicit solver choice (short histories)
    'life-values': dict(fn=h_life, nontrivial=_NT_VALUES, required=_NT_VALUES),
}

_HEAP = dict(G=3, K=2, prefix_waits=(1, 2, 3))

TIERS = {
    'quick': [
        ('life-nonpos', dict(G=2, L=4, K=2, inside=1, nonpos=True)),
        ('life', dict(G=3, L=4, K=2, inside=1)),
        ('life-nonpos-outside', dict(G=2, L=5, K=2, inside=0, nonpos=True)),
        ('life-heap', dict(L=3, inside=0, **_HEAP)),
        ('life-values', dict(G=2, L=4, K=2, inside=0, ret_choice=True)),
    ],
    'thorough': [
        ('life', dict(G=2, L=6, K=2, inside=1)),
        ('life', dict(G=3, L=5, K=2, inside=1)),
        ('life', dict(G=2, L=4, K=2, inside=2)),
        ('life-outside', dict(G=3, L=6, K=2, inside=0)),
        ('life-nonpos', dict(G=2, L=5, K=2, inside=1, nonpos=True)),
        ('life-nonpos', dict(G=3, L=4, K=2, inside=1, nonpos=True)),
        ('life-heap', dict(L=4, inside=0, **_HEAP)),
        ('life-heap', dict(L=3, inside=1, **_HEAP)),
        ('life-values', dict(G=2, L=4, K=2, inside=1, ret_choice=True)),
        ('life-values', dict(G=2, L=5, K=2, inside=0, ret_choice=True)),
    ],
}
BUDGET_S = {'quick': 180, 'thorough': 2400}

EXPLANATION = (
    'Bounded exhaustive exploration of the real CoroutineProcessor / CoroutinePromise: every history of L '
    'operations start(g) | kill(g) (processor or promise route) | process(1) over G generator slots, followed by '
    'three flushing frames.  Opcode, target, kill route, what each coroutine body does at each step (yield None / '
    'yield 1 / yield 2 / return) and the inside action (start, kill or kill-then-start of any generator, itself '
    'included, issued from within a running body) are solver variables; the explorer enumerates every feasible '
    'assignment and certifies that none was skipped.  The bodies are harness code and report every execution to '
    'a reference model of the statement (alive / waiting / ran-this-frame / release deadline); after every '
    'operation and at every body step state(), every promise\'s state and value, the exceptions of start/kill '
    'and the wrong-type TypeErrors are compared with the model, and a weak reference to every finished or killed '
    'generator must be dead by the end of the frame in which it would next have run.')
RULE = ('one evaluation = one feasible history (operation sequence x body scripts x inside action), distinct by '
        'construction; non-trivial = the history contains a kill, a restart (before or after the flush, of a '
        'waiter, of a finished generator), a ValueError case, an elapsed wait, a returned value, an inside action '
        'or a release check')
BOUNDS = {
    'quick': '(G=2 generators, L=4 operations, at most 1 inside action = start/kill/kill+start of any generator '
             'incl. the running one, items None/0/-1/1/2/return), (G=3, L=4, 1 inside action, items '
             'None/1/2/return), (G=2, L=5, no inside action, items None/0/-1/1/2/return), (heap prefix: three '
             'coroutines PAUSED with a solver-chosen permutation of the waits 1,2,3, then L=3 free operations); '
             '(G=2, L=4, no inside action, returned value solver-chosen among None,0,False,\'\',(),7,\'x\'); in all '
             'other configurations the returned value rotates through the same seven values; '
             'always followed by flushing frames (longest wait + 2), <=2 items per body then return, dt=1',
    'thorough': 'items None/1/2/return: (G=2, L=6, 1 inside action), (G=3, L=5, 1), (G=2, L=4, 2), (G=3, L=6, 0); '
                'items None/0/-1/1/2/return: (G=2, L=5, 1), (G=3, L=4, 1); heap prefix (waits 1,2,3 permuted): '
                'L=4 without and L=3 with 1 inside action; solver-chosen returned value: (G=2, L=4, 1 inside action), '
                '(G=2, L=5, none); otherwise as quick',
}
ASSUMPTIONS = [
    'a coroutine (re)started from inside a body during a process call may or may not be advanced in that same '
    'call (never twice); the statement does not say',
    'release deadlines are read leniently: finished -> end of the next process call; killed while runnable -> the '
    'call in which it would next have run (the current one only if it was certainly still due in it); killed '
    'while waiting -> the call in which its wait elapses',
    'the promise returned by the latest start holds None until the generator returns (also after a kill) and '
    'from then on exactly the returned object (identity for None/True/False, type + equality otherwise; falsy '
    'values such as 0, False, \'\', () included); what it holds when a coroutine is killed during its very last '
    'step is not stated and not checked; promises of earlier starts are only required to report the state',
    'starting a killed waiter makes it ACTIVE (the remaining wait is abandoned) - "ACTIVE from start"',
    'an exhausted generator object may be started again; it then terminates with value None at its next turn',
    'never-started generators are interchangeable: operations address the started ones and the first '
    'never-started one (symmetry reduction)',
    'after a verified release the slot continues with a fresh generator object resuming at the same script '
    'position (the processor cannot know the old object any more)',
    'dt = 1 and waits 1 or 2 (1, 2, 3 in the heap-prefix configurations); yielding 0 or -1 must behave exactly '
    'like yielding None (stays ACTIVE, advanced in the next call); timing over the reals is C08',
]
OUTSIDE = ['exceptions raised by coroutine bodies', 'process() re-entered from inside a body',
           'histories longer than the bounds', 'the @coroutine decorator / World lookup',
           'two processors sharing one generator']

TECHNIQUE = 'bounded symbolic execution (symx/z3) of start/kill/process histories including actions from inside coroutine bodies, state-machine oracle'
